#!/bin/bash
# Confirms sub-agent mutants in a scratch worktree of /repo HEAD recreated at /tmp/wt/<ID>:
# (WTROOT/OUTROOT override the roots; default /tmp/wt and /tmp/wtout)
#   for each mutantN: applies, full test suite must give 122 passed, demo must fail; reverted: demo must pass.
# usage: tools_confirm_mutants.sh ID...     results -> /tmp/wtout/<ID>/confirm.txt
for ID in "$@"; do
  WT=${WTROOT:-/tmp/wt}/$ID; OUT=${OUTROOT:-/tmp/wtout}/$ID
  git -C /repo worktree remove --force $WT 2>/dev/null
  git -C /repo worktree add --detach $WT HEAD >/dev/null 2>&1 || { echo "$ID: cannot create worktree"; continue; }
  cp -a ${TARGETSRC:-/repo/target} $WT/target 2>/dev/null
  : > $OUT/confirm.txt
  for N in 1 2; do
    P=$OUT/mutant$N.patch; [ -f $P ] || continue
    cd $WT && git reset -q --hard HEAD && git clean -fdq -e target
    DEMO=$(ls $OUT/mutant${N}_demo.rs 2>/dev/null); DEMOSH=$(ls $OUT/mutant${N}_demo.sh 2>/dev/null)
    run_demo() {
      if [ -n "$DEMO" ]; then cp $DEMO $WT/tests/verif_demo_${ID}_$N.rs; (cd $WT && cargo test --offline --test verif_demo_${ID}_$N >$OUT/demo_$N.log 2>&1); echo $?
      elif [ -n "$DEMOSH" ]; then (cd $WT && bash $DEMOSH $WT >$OUT/demo_$N.log 2>&1); echo $?
      else echo nodemo; fi
    }
    PRIST=$(run_demo)
    if git apply --check $P 2>/dev/null; then git apply $P; AP=clean
    elif [ -f $OUT/mutant$N.rebased.patch ] && git apply --check $OUT/mutant$N.rebased.patch 2>/dev/null; then git apply $OUT/mutant$N.rebased.patch; AP=rebased-by-hand
    else git reset -q --hard HEAD; echo "mutant$N apply=FAILED" >> $OUT/confirm.txt; continue; fi
    git diff > $OUT/mutant$N.current.patch
    rm -f $WT/tests/verif_demo_*.rs
    SUITE=$(cd $WT && cargo test --offline --workspace --no-fail-fast 2>&1 | grep -E "^test result" | awk '{p+=$4; f+=$6} END {print p"p/"f"f"}')
    MUT=$(run_demo)
    rm -f $WT/tests/verif_demo_*.rs
    echo "mutant$N apply=$AP suite=$SUITE demo_pristine_rc=$PRIST demo_mutant_rc=$MUT" >> $OUT/confirm.txt
    git reset -q --hard HEAD
  done
  cd /; git -C /repo worktree remove --force $WT
  echo "$ID: $(cat $OUT/confirm.txt | tr '\n' ';')"
done
