#!/bin/bash
# usage: tools_try_mutant.sh <patch> <check-id> [tier]   -- applies patch to /repo, runs the check, reverts
P="$1"; ID="$2"; TIER="${3:-quick}"
cd /repo || exit 9
if ! git apply --check "$P" 2>/dev/null; then
  if ! git apply --3way "$P" >/dev/null 2>&1; then echo "PATCH DOES NOT APPLY: $P"; git reset -q --hard HEAD; exit 8; fi
  git reset -q
else
  git apply "$P"
fi
cd /verif && ./check "$ID" "$TIER" > /tmp/mut_out.txt 2>&1; RC=$?
echo "== $P on $ID: rc=$RC"; grep -m3 "violation:\|INCONCLUSIVE\|KNOWN" /tmp/mut_out.txt | cut -c1-300
cd /repo && git reset -q --hard HEAD && git status --short | grep -v "^??" | head -3
exit 0
