#!/bin/bash
# Offline build of the monitoring harness and of the repository's own binaries.
set -e
cd "$(dirname "$0")"
export CARGO_NET_OFFLINE=true
python3 - <<'PY'
import sys
sys.path.insert(0, "mon")
import common
common.build(bins=True)
print("setup ok")
PY
