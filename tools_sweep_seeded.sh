#!/bin/bash
# usage: tools_sweep_seeded.sh [tier] [id...]   -- runs every seeded change (or the named ones) against its property's check
# (apply to /repo, run, revert) and writes seeded/SWEEP.tsv: id, check, exit code, first violation line.
TIER="${1:-quick}"; shift
IDS="$@"; [ -z "$IDS" ] && IDS=$(ls /verif/seeded | grep -E '^C[0-9]{2}-[0-9]+$')
OUT=/verif/seeded/SWEEP.tsv
[ -z "$*" ] && : > $OUT
for S in $IDS; do
  P=/verif/seeded/$S/patch.diff; ID=${S%%-*}
  OVR=$(jq -r '.check // empty' /verif/seeded/$S/meta.json); [ -n "$OVR" ] && ID=$OVR
  [ -n "$(jq -r '.status // empty' /verif/seeded/$S/meta.json)" ] && { echo -e "$S\t$ID\tSUPERSEDED\t" >> $OUT; continue; }
  cd /repo && git reset -q --hard HEAD
  if ! git apply --check "$P" 2>/dev/null; then echo -e "$S\t$ID\tNOAPPLY\t" >> $OUT; continue; fi
  git apply "$P"
  cd /verif && ./check "$ID" "$TIER" > /tmp/sweep_out.txt 2>&1; RC=$?
  V=$(grep -m1 "violation:" /tmp/sweep_out.txt | cut -c1-220 | tr '\t' ' ')
  printf '%s\t%s\t%s\t%s\n' "$S" "$ID" "$RC" "$V" >> $OUT
  cd /repo && git reset -q --hard HEAD
done
cd /repo && git status --short | grep -v '^??' | head -3
