import sys, json, random
sys.path.insert(0,'/verif/mon')
import gen, ref, common
i=int(sys.argv[1]); rng=random.Random(1000+i)
k=gen.Knobs(affiliates=rng.choice([['Default'],['Default','Spouse'],['Default','Spouse','Default (R)'],['Default','Spouse','Kid','Spouse (R)']]),
            n_secs=(1,2), opening=0.2, p_invalid=rng.choice([0,0,0.03]))
h=gen.HistoryGen(rng,k).gen()
case={'id':'x','files':[['in.csv',gen.rows_to_csv(h['rows'],gen.used_cols(h['rows']))]],'init':gen.init_args(h['init']),'full':True,'want':['model']}
res=common.run_harness('app',[case],tag='dbg')['x']
by=ref.events_by_security(h['rows'])
sec=sys.argv[2]
evs=by[sec]
led=ref.Ledger(h['init'].get(sec))
for j,e in enumerate(evs):
    if e.action=='Sell' and not ref.is_reg(e.af):
        x=ref.sfl_expect(evs,j,led)
        print(j,e.sd,e.af,'sold',float(e.shares),'acq',float(x['acquired']),'held',float(x['held_end']),'n',float(x['n']),'T',float(x['T']), 'T-n', x['T']-x['n'], {b:float(v) for b,v in x['eop'].items()}, x['buyers'])
    ref.apply_event(evs,j,led,None)
for r in res['tables'][sec]['rows']: print([c.replace('\n','|') for c in r[1:15]])
