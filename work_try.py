import sys, json, random, collections
sys.path.insert(0,'/verif/mon')
import gen, ref, common
N=int(sys.argv[1]) if len(sys.argv)>1 else 300
cases=[]; hist={}
for i in range(N):
    rng=random.Random(1000+i)
    k=gen.Knobs(affiliates=rng.choice([['Default'],['Default','Spouse'],['Default','Spouse','Default (R)'],['Default','Spouse','Kid','Spouse (R)']]),
                n_secs=(1,2), opening=0.2, p_invalid=rng.choice([0,0,0.03]))
    h=gen.HistoryGen(rng,k).gen()
    cid='t%d'%i
    hist[cid]=h
    cases.append({'id':cid,'files':[['in.csv',gen.rows_to_csv(h['rows'],gen.used_cols(h['rows']))]],'init':gen.init_args(h['init']),'full':True,'want':['model']})
res=common.run_harness('app',cases,tag='try')
cnt=collections.Counter(); shown=0
for cid,h in hist.items():
    r=res[cid]
    if 'panic' in r:
        cnt['panic:'+r['panic']['loc']]+=1; continue
    if not r.get('ok'):
        cnt['err:'+r.get('err','')[:50]]+=1; continue
    an=ref.analyze(h,r)
    for sec,A in an.items():
        cnt['secs']+=1; cnt['rows']+=A.rows_judged; cnt['loss_sales']+=A.loss_sales; cnt['sfl']+=A.sfl_sales; cnt['c03p']+=A.c03_prefixes
        if A.ref_reject: cnt['ref_reject:'+A.ref_reject[1]]+=1
        if A.tool_error: cnt['tool_error']+=1
        if bool(A.ref_reject)!=bool(A.tool_error):
            cnt['ACCEPT_MISMATCH']+=1
            if shown<5:
                shown+=1; print(cid,sec,'ref',A.ref_reject and (A.ref_reject[1],str(A.ref_reject[0].td)),'tool',A.tool_error)
        for f in A.findings:
            cnt['F:'+f.prop+':'+f.what[:40]]+=1
            if shown<8:
                shown+=1; print(cid,f)
for k,v in sorted(cnt.items()): print(v,k)
if len(sys.argv)>2:
    for cid,h in hist.items():
        r=res[cid]
        if 'panic' in r and sys.argv[2]=='panic':
            print(cid, r['panic']['msg'][:600]); print(gen.rows_to_csv(h['rows'],gen.used_cols(h['rows']))); print(h['init']); break
    for cid in sys.argv[2:]:
        if cid in hist:
            h=hist[cid]; print(cid, h['init']); print(gen.rows_to_csv(h['rows'],gen.used_cols(h['rows'])))
            for sec,t in res[cid].get('tables',{}).items():
                for r in t['rows']: print([c.replace('\n','|') for c in r[1:15]])
