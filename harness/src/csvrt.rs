use serde_json::{json, Value};

pub fn run_csvrt_case(_case: &Value) -> Value {
    json!({"harness_error": "not implemented"})
}
