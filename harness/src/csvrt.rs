// `csvrt` mode (C11): build Tx values from a spec through the public types, write them with the
// real CSV writer, read them back with the real parser and conversion, write again.

use std::str::FromStr;

use rust_decimal::Decimal;
use serde_json::{json, Map, Value};

use acb::portfolio::io::tx_csv::{parse_tx_csv, write_txs_to_csv, TxCsvParseOptions};
use acb::portfolio::{
    Affiliate, BuyTxSpecifics, CsvTx, Currency, CurrencyAndExchangeRate, RocTxSpecifics,
    SFLInput, SellTxSpecifics, SflaTxSpecifics, SplitRatio, SplitTxSpecifics, Tx,
    TxActionSpecifics,
};
use acb::util::date::parse_standard_date;
use acb::util::decimal::{
    GreaterEqualZeroDecimal, LessEqualZeroDecimal, PosDecimal,
};
use acb::util::rw::{DescribedReader, WriteHandle};

fn dec(v: &Value, k: &str) -> Result<Decimal, String> {
    let s = v.get(k).and_then(|x| x.as_str()).ok_or(format!("spec missing {k}"))?;
    Decimal::from_str_exact(s).map_err(|e| format!("spec {k}={s}: {e}"))
}

fn opt_dec(v: &Value, k: &str) -> Result<Option<Decimal>, String> {
    match v.get(k).and_then(|x| x.as_str()) {
        Some(s) => Decimal::from_str_exact(s).map(Some).map_err(|e| format!("spec {k}={s}: {e}")),
        None => Ok(None),
    }
}

fn cur_rate(v: &Value, ck: &str, rk: &str) -> Result<Option<CurrencyAndExchangeRate>, String> {
    match v.get(ck).and_then(|x| x.as_str()) {
        None => Ok(None),
        Some(c) => {
            let cur = Currency::new(c);
            let rate = match opt_dec(v, rk)? {
                Some(r) => PosDecimal::try_from(r)?,
                None => PosDecimal::one(),
            };
            Ok(Some(CurrencyAndExchangeRate::try_new(cur, rate)?))
        }
    }
}

fn tx_from_spec(v: &Value, idx: u32) -> Result<Tx, String> {
    let action = v["action"].as_str().unwrap_or("");
    let specs = match action {
        "Buy" | "Sell" => {
            let common = BuyTxSpecifics {
                shares: PosDecimal::try_from(dec(v, "shares")?)?,
                amount_per_share: GreaterEqualZeroDecimal::try_from(dec(v, "aps")?)?,
                commission: GreaterEqualZeroDecimal::try_from(
                    opt_dec(v, "comm")?.unwrap_or(Decimal::ZERO),
                )?,
                tx_currency_and_rate: cur_rate(v, "cur", "fx")?
                    .unwrap_or_else(CurrencyAndExchangeRate::default),
                separate_commission_currency: cur_rate(v, "ccur", "cfx")?,
            };
            if action == "Buy" {
                TxActionSpecifics::Buy(common)
            } else {
                let sfl = match v.get("sfl") {
                    Some(s) if !s.is_null() => Some(SFLInput {
                        superficial_loss: LessEqualZeroDecimal::try_from(dec(s, "amount")?)?,
                        force: s["force"].as_bool().unwrap_or(false),
                    }),
                    _ => None,
                };
                TxActionSpecifics::Sell(SellTxSpecifics::from_common_buy_sell_attrs(&common, sfl))
            }
        }
        "RoC" => TxActionSpecifics::Roc(RocTxSpecifics {
            amount_per_held_share: GreaterEqualZeroDecimal::try_from(dec(v, "aps")?)?,
            tx_currency_and_rate: cur_rate(v, "cur", "fx")?
                .unwrap_or_else(CurrencyAndExchangeRate::default),
        }),
        "SfLA" => TxActionSpecifics::Sfla(SflaTxSpecifics {
            shares_affected: PosDecimal::try_from(dec(v, "shares")?)?,
            amount_per_share: PosDecimal::try_from(dec(v, "aps")?)?,
        }),
        "Split" => {
            let s = &v["split"];
            TxActionSpecifics::Split(SplitTxSpecifics {
                ratio: SplitRatio {
                    pre_split: PosDecimal::try_from(dec(s, "pre")?)?,
                    post_split: PosDecimal::try_from(dec(s, "post")?)?,
                    reverse_integer_only: s["int_only"].as_bool().unwrap_or(false),
                },
            })
        }
        other => return Err(format!("spec: unknown action {other}")),
    };
    let af = match v.get("af").and_then(|a| a.as_str()) {
        Some("__global__") => Affiliate::global(),
        Some(a) => Affiliate::from_strep(a),
        None => Affiliate::default(),
    };
    Ok(Tx {
        security: v["sec"].as_str().unwrap_or("").to_string(),
        trade_date: parse_standard_date(v["td"].as_str().unwrap_or("")).map_err(|e| e.to_string())?,
        settlement_date: parse_standard_date(v["sd"].as_str().unwrap_or("")).map_err(|e| e.to_string())?,
        action_specifics: specs,
        memo: v.get("memo").and_then(|m| m.as_str()).unwrap_or("").to_string(),
        affiliate: af,
        read_index: idx,
    })
}

fn car_json(c: &CurrencyAndExchangeRate) -> Value {
    json!({"cur": c.currency.as_str(), "rate": c.exchange_rate.to_string()})
}

pub fn tx_to_json(tx: &Tx) -> Value {
    let mut o = Map::new();
    o.insert("sec".into(), json!(tx.security));
    o.insert("td".into(), json!(tx.trade_date.to_string()));
    o.insert("sd".into(), json!(tx.settlement_date.to_string()));
    o.insert("action".into(), json!(tx.action().pretty_str()));
    o.insert("memo".into(), json!(tx.memo));
    o.insert("af_id".into(), json!(tx.affiliate.id()));
    o.insert("af_registered".into(), json!(tx.affiliate.registered()));
    o.insert("af_global".into(), json!(tx.affiliate.is_global()));
    o.insert("read_index".into(), json!(tx.read_index));
    match &tx.action_specifics {
        TxActionSpecifics::Buy(b) => {
            o.insert("shares".into(), json!(b.shares.to_string()));
            o.insert("aps".into(), json!(b.amount_per_share.to_string()));
            o.insert("comm".into(), json!(b.commission.to_string()));
            o.insert("txcur".into(), car_json(&b.tx_currency_and_rate));
            o.insert("ccur".into(), b.separate_commission_currency.as_ref().map(car_json).unwrap_or(Value::Null));
        }
        TxActionSpecifics::Sell(b) => {
            o.insert("shares".into(), json!(b.shares.to_string()));
            o.insert("aps".into(), json!(b.amount_per_share.to_string()));
            o.insert("comm".into(), json!(b.commission.to_string()));
            o.insert("txcur".into(), car_json(&b.tx_currency_and_rate));
            o.insert("ccur".into(), b.separate_commission_currency.as_ref().map(car_json).unwrap_or(Value::Null));
            o.insert(
                "sfl".into(),
                b.specified_superficial_loss
                    .as_ref()
                    .map(|s| json!({"amount": s.superficial_loss.to_string(), "force": s.force}))
                    .unwrap_or(Value::Null),
            );
        }
        TxActionSpecifics::Roc(r) => {
            o.insert("aps".into(), json!(r.amount_per_held_share.to_string()));
            o.insert("txcur".into(), car_json(&r.tx_currency_and_rate));
        }
        TxActionSpecifics::Sfla(s) => {
            o.insert("shares".into(), json!(s.shares_affected.to_string()));
            o.insert("aps".into(), json!(s.amount_per_share.to_string()));
        }
        TxActionSpecifics::Split(s) => {
            o.insert(
                "split".into(),
                json!({"pre": s.ratio.pre_split.to_string(), "post": s.ratio.post_split.to_string(),
                       "int_only": s.ratio.reverse_integer_only}),
            );
        }
    }
    Value::Object(o)
}

fn write_txs(txs: &Vec<Tx>) -> Result<String, String> {
    let csv_txs: Vec<CsvTx> = txs.iter().map(|t| t.to_csvtx()).collect();
    let mut buf = Vec::<u8>::new();
    write_txs_to_csv(&csv_txs, &mut buf).map_err(|e| e.to_string())?;
    String::from_utf8(buf).map_err(|e| e.to_string())
}

fn read_txs(text: &str) -> Result<(Vec<Tx>, String), String> {
    let (errh, errbuf) = WriteHandle::string_buff_write_handle();
    let mut errh = errh;
    let mut reader = DescribedReader::from_string("roundtrip.csv".into(), text.to_string());
    let csv_txs = parse_tx_csv(&mut reader, 0, &TxCsvParseOptions::default(), &mut errh)?;
    let mut txs = Vec::new();
    for c in csv_txs {
        txs.push(Tx::try_from(c)?);
    }
    let w = errbuf.borrow().as_str().to_string();
    Ok((txs, w))
}

pub fn run_csvrt_case(case: &Value) -> Value {
    let specs = match case.get("txs").and_then(|t| t.as_array()) {
        Some(s) => s,
        None => return json!({"harness_error": "no txs"}),
    };
    let mut txs = Vec::new();
    for (i, s) in specs.iter().enumerate() {
        match tx_from_spec(s, i as u32) {
            Ok(t) => txs.push(t),
            Err(e) => return json!({"spec_error": e, "at": i}),
        }
    }
    let original: Vec<Value> = txs.iter().map(tx_to_json).collect();
    let bytes1 = match write_txs(&txs) {
        Ok(b) => b,
        Err(e) => return json!({"write1_error": e, "original": original}),
    };
    let (txs2, warnings) = match read_txs(&bytes1) {
        Ok(t) => t,
        Err(e) => return json!({"read_error": e, "bytes1": bytes1, "original": original}),
    };
    let reread: Vec<Value> = txs2.iter().map(tx_to_json).collect();
    let bytes2 = match write_txs(&txs2) {
        Ok(b) => b,
        Err(e) => return json!({"write2_error": e, "bytes1": bytes1, "original": original, "reread": reread}),
    };
    json!({"bytes1": bytes1, "bytes2": bytes2, "original": original, "reread": reread, "warnings": warnings})
}
