// Peripheral front ends: tx-export-convert (xlsx), etrade-plan-pdf-tx-extract (texts),
// questrade statement FMV parsing and the PDF page-hint machinery.

use std::path::PathBuf;
use std::sync::Arc;

use serde_json::{json, Value};

use acb::peripheral::etrade_plan_pdf_tx_extract_impl as etrade_impl;
use acb::peripheral::pdf::LazyPageTextVec;
use acb::peripheral::questrade_statement_fmv_impl::parse_statement_text;
use acb::peripheral::tx_export_convert_impl as conv_impl;
use acb::util::rw::WriteHandle;

fn write_xlsx(path: &str, sheets: &Vec<Value>) -> Result<(), String> {
    use rust_xlsxwriter::{Formula, Workbook};
    let mut wb = Workbook::new();
    for sh in sheets {
        let ws = wb.add_worksheet();
        if let Some(n) = sh.get("name").and_then(|n| n.as_str()) {
            ws.set_name(n).map_err(|e| e.to_string())?;
        }
        let empty = Vec::new();
        let rows = sh.get("rows").and_then(|r| r.as_array()).unwrap_or(&empty);
        for (ri, row) in rows.iter().enumerate() {
            let cells = row.as_array().unwrap_or(&empty);
            for (ci, cell) in cells.iter().enumerate() {
                let (r, c) = (ri as u32, ci as u16);
                if cell.is_null() {
                    continue;
                }
                if let Some(s) = cell.get("s").and_then(|s| s.as_str()) {
                    ws.write_string(r, c, s).map_err(|e| e.to_string())?;
                } else if let Some(n) = cell.get("n") {
                    let f = if let Some(s) = n.as_str() {
                        s.parse::<f64>().map_err(|e| e.to_string())?
                    } else {
                        n.as_f64().ok_or("bad number cell")?
                    };
                    ws.write_number(r, c, f).map_err(|e| e.to_string())?;
                } else if let Some(b) = cell.get("b").and_then(|b| b.as_bool()) {
                    ws.write_boolean(r, c, b).map_err(|e| e.to_string())?;
                } else if let Some(f) = cell.get("f").and_then(|f| f.as_str()) {
                    let res = cell.get("r").and_then(|r| r.as_str()).unwrap_or("");
                    ws.write_formula(r, c, Formula::new(f).set_result(res))
                        .map_err(|e| e.to_string())?;
                }
            }
        }
    }
    wb.save(path).map_err(|e| e.to_string())
}

pub fn run_xlsx_case(case: &Value) -> Value {
    let path = match case.get("path").and_then(|p| p.as_str()) {
        Some(p) => p.to_string(),
        None => return json!({"harness_error": "xlsx case needs path"}),
    };
    if let Some(sheets) = case.get("sheets").and_then(|s| s.as_array()) {
        if let Err(e) = write_xlsx(&path, sheets) {
            return json!({"harness_error": format!("cannot write xlsx: {e}")});
        }
    }
    if case.get("write_only").and_then(|b| b.as_bool()).unwrap_or(false) {
        return json!({"written": path});
    }
    let a = case.get("args").cloned().unwrap_or(json!({}));
    let re = |k: &str| -> Result<Option<regex::Regex>, String> {
        match a.get(k).and_then(|v| v.as_str()) {
            Some(s) => regex::Regex::new(s).map(Some).map_err(|e| e.to_string()),
            None => Ok(None),
        }
    };
    let (account, security) = match (re("account"), re("security")) {
        (Ok(a_), Ok(s_)) => (a_, s_),
        (Err(e), _) | (_, Err(e)) => return json!({"harness_error": e}),
    };
    let usd_rate = match a.get("usd_exchange_rate").and_then(|v| v.as_str()) {
        Some(s) => match s.parse::<rust_decimal::Decimal>() {
            Ok(d) => Some(d),
            Err(e) => return json!({"harness_error": e.to_string()}),
        },
        None => None,
    };
    let args = conv_impl::Args {
        export_file: PathBuf::from(&path),
        no_sort: a.get("no_sort").and_then(|b| b.as_bool()).unwrap_or(false),
        broker: conv_impl::BrokerArg::Questrade,
        usd_exchange_rate: usd_rate,
        account,
        security,
        no_fx: a.get("no_fx").and_then(|b| b.as_bool()).unwrap_or(false),
        pretty: a.get("pretty").and_then(|b| b.as_bool()).unwrap_or(false),
        sheet: a.get("sheet").and_then(|v| v.as_str()).map(String::from),
    };
    let (outh, outbuf) = WriteHandle::string_buff_write_handle();
    let (errh, errbuf) = WriteHandle::string_buff_write_handle();
    let r = conv_impl::run_with_args(args, outh, errh);
    let out = outbuf.borrow().as_str().to_string();
    let err = errbuf.borrow().as_str().to_string();
    json!({"ok": r.is_ok(), "out": out, "err": err})
}

pub fn run_etrade_case(case: &Value) -> Value {
    let dir = match case.get("dir").and_then(|p| p.as_str()) {
        Some(p) => PathBuf::from(p),
        None => return json!({"harness_error": "etrade case needs dir"}),
    };
    let mut files = Vec::new();
    if let Some(fs) = case.get("files").and_then(|f| f.as_array()) {
        for f in fs {
            let rel = f[0].as_str().unwrap_or("x.txt");
            let p = dir.join(rel);
            if let Some(parent) = p.parent() {
                let _ = std::fs::create_dir_all(parent);
            }
            if let Some(hex) = f.get(2).and_then(|h| h.as_str()) {
                // raw bytes given as hex (for invalid UTF-8 etc.)
                let bytes: Vec<u8> = (0..hex.len() / 2)
                    .filter_map(|i| u8::from_str_radix(&hex[2 * i..2 * i + 2], 16).ok())
                    .collect();
                if let Err(e) = std::fs::write(&p, bytes) {
                    return json!({"harness_error": format!("write {p:?}: {e}")});
                }
            } else if let Err(e) = std::fs::write(&p, f[1].as_str().unwrap_or("")) {
                return json!({"harness_error": format!("write {p:?}: {e}")});
            }
            files.push(p);
        }
    }
    let args = etrade_impl::Args {
        files,
        pretty: case.get("pretty").and_then(|b| b.as_bool()).unwrap_or(false),
        extract_only: case.get("extract_only").and_then(|b| b.as_bool()).unwrap_or(false),
        debug: false,
    };
    let (outh, outbuf) = WriteHandle::string_buff_write_handle();
    let (errh, errbuf) = WriteHandle::string_buff_write_handle();
    let r = etrade_impl::run_with_args(args, outh, errh);
    let out = outbuf.borrow().as_str().to_string();
    let err = errbuf.borrow().as_str().to_string();
    json!({"ok": r.is_ok(), "out": out, "err": err})
}

fn statement_to_json(r: Result<acb::peripheral::questrade_statement_fmv_impl::StatementFmvs, String>) -> Value {
    match r {
        Ok(s) => {
            let fmvs: Vec<Value> = s
                .fmvs
                .iter()
                .map(|f| json!({"desc": f.security_desc, "alloc": f.allocation.to_string(), "fmv": f.fmv.to_string()}))
                .collect();
            json!({"ok": true, "month": s.month_date.to_string(), "fmvs": fmvs, "total": s.total.to_string()})
        }
        Err(e) => json!({"ok": false, "err": e}),
    }
}

pub fn run_fmv_case(case: &Value) -> Value {
    let pages: Vec<String> = case
        .get("pages")
        .and_then(|p| p.as_array())
        .map(|a| a.iter().filter_map(|s| s.as_str().map(String::from)).collect())
        .unwrap_or_default();
    statement_to_json(parse_statement_text(pages.iter()))
}

/// Builds a real multi-page PDF with lopdf; page k carries the given lines of text.
fn build_pdf(page_lines: &Vec<Vec<String>>) -> lopdf::Document {
    use lopdf::content::{Content, Operation};
    use lopdf::{dictionary, Document, Object, Stream};
    let mut doc = Document::with_version("1.5");
    let pages_id = doc.new_object_id();
    let font_id = doc.add_object(dictionary! {
        "Type" => "Font",
        "Subtype" => "Type1",
        "BaseFont" => "Courier",
    });
    let resources_id = doc.add_object(dictionary! {
        "Font" => dictionary! { "F1" => font_id },
    });
    let mut kids: Vec<Object> = Vec::new();
    for lines in page_lines {
        let mut ops = vec![
            Operation::new("BT", vec![]),
            Operation::new("Tf", vec!["F1".into(), 10.into()]),
            Operation::new("TL", vec![14.into()]),
            Operation::new("Td", vec![40.into(), 760.into()]),
        ];
        for l in lines {
            ops.push(Operation::new("Tj", vec![Object::string_literal(l.as_str())]));
            ops.push(Operation::new("T*", vec![]));
        }
        ops.push(Operation::new("ET", vec![]));
        let content = Content { operations: ops };
        let content_id = doc.add_object(Stream::new(dictionary! {}, content.encode().unwrap()));
        let page_id = doc.add_object(dictionary! {
            "Type" => "Page",
            "Parent" => pages_id,
            "Contents" => content_id,
        });
        kids.push(page_id.into());
    }
    let count = kids.len() as i64;
    let pages = dictionary! {
        "Type" => "Pages",
        "Kids" => kids,
        "Count" => count,
        "Resources" => resources_id,
        "MediaBox" => vec![0.into(), 0.into(), 595.into(), 842.into()],
    };
    doc.objects.insert(pages_id, Object::Dictionary(pages));
    let catalog_id = doc.add_object(dictionary! {
        "Type" => "Catalog",
        "Pages" => pages_id,
    });
    doc.trailer.set("Root", catalog_id);
    doc
}

pub fn run_pdf_case(case: &Value) -> Value {
    let page_lines: Vec<Vec<String>> = case
        .get("pages")
        .and_then(|p| p.as_array())
        .map(|a| {
            a.iter()
                .map(|pg| {
                    pg.as_array()
                        .map(|ls| ls.iter().filter_map(|s| s.as_str().map(String::from)).collect())
                        .unwrap_or_default()
                })
                .collect()
        })
        .unwrap_or_default();
    let hints: Vec<Vec<u32>> = case
        .get("hints")
        .and_then(|h| h.as_array())
        .map(|a| {
            a.iter()
                .map(|g| g.as_array().map(|x| x.iter().filter_map(|v| v.as_u64().map(|u| u as u32)).collect()).unwrap_or_default())
                .collect()
        })
        .unwrap_or_default();
    let parallel = case.get("parallel").and_then(|b| b.as_bool()).unwrap_or(false);
    if let Some(n) = case.get("num_pages_only").and_then(|n| n.as_u64()) {
        let groups = LazyPageTextVec::safe_page_chunks_with_remainder_pn(n as u32, &hints);
        return json!({"n_pages": n, "groups": groups});
    }
    let mut doc = build_pdf(&page_lines);
    // round-trip through bytes, so that what is iterated is a loaded document
    let mut bytes = Vec::new();
    if let Err(e) = doc.save_to(&mut bytes) {
        return json!({"harness_error": format!("pdf save: {e}")});
    }
    let doc = match lopdf::Document::load_mem(&bytes) {
        Ok(d) => d,
        Err(e) => return json!({"harness_error": format!("pdf load: {e}")}),
    };
    let n_pages = acb::peripheral::pdf::get_num_pages(&doc);
    let groups = LazyPageTextVec::safe_page_chunks_with_remainder(&doc, &hints);
    let raw_groups = case.get("raw_groups").and_then(|b| b.as_bool()).unwrap_or(false);
    let use_groups = if raw_groups { hints.clone() } else { groups.clone() };
    let arc = Arc::new(doc);
    let mut visited = Vec::new();
    let last_error;
    {
        let mut lazy = LazyPageTextVec::new(arc.clone(), parallel);
        for (pn, txt) in lazy.optimized_iter(use_groups.clone()) {
            visited.push(json!([pn, txt.as_str()]));
        }
        last_error = lazy.last_error.clone();
    }
    let mut out = json!({"n_pages": n_pages, "groups": groups, "visited": visited, "last_error": last_error});
    if case.get("statement").and_then(|b| b.as_bool()).unwrap_or(false) {
        let mut lazy = LazyPageTextVec::new(arc.clone(), parallel);
        let it = lazy.optimized_iter(use_groups);
        out["statement_hinted"] = statement_to_json(parse_statement_text(it.map(|(_, t)| t)));
        let all: Vec<u32> = (1..=n_pages).collect();
        let mut lazy2 = LazyPageTextVec::new(arc, false);
        let it2 = lazy2.optimized_iter(vec![all]);
        out["statement_in_order"] = statement_to_json(parse_statement_text(it2.map(|(_, t)| t)));
    }
    out
}
