use serde_json::{json, Value};

pub fn run_xlsx_case(_case: &Value) -> Value {
    json!({"harness_error": "not implemented"})
}
pub fn run_etrade_case(_case: &Value) -> Value {
    json!({"harness_error": "not implemented"})
}
pub fn run_fmv_case(_case: &Value) -> Value {
    json!({"harness_error": "not implemented"})
}
pub fn run_pdf_case(_case: &Value) -> Value {
    json!({"harness_error": "not implemented"})
}
