// acbmon: workload driver + event recorder linked against the real acb library.
//
// Usage: acbmon <mode>   (cases as JSON lines on stdin, one result JSON line per case on stdout)
//
// Every case runs under catch_unwind with a panic hook that records message and location,
// so a panic inside the library becomes a `panic` field in the result instead of killing
// the batch.

use std::cell::RefCell;
use std::io::{BufRead, Write};
use std::panic::{catch_unwind, AssertUnwindSafe};

use serde_json::{json, Value};

mod app;
mod csvrt;
mod periph;
mod rates;

thread_local! {
    static LAST_PANIC: RefCell<Option<(String, String)>> = RefCell::new(None);
}

fn install_panic_hook() {
    std::panic::set_hook(Box::new(|info| {
        let msg = if let Some(s) = info.payload().downcast_ref::<&str>() {
            s.to_string()
        } else if let Some(s) = info.payload().downcast_ref::<String>() {
            s.clone()
        } else {
            "<non-string panic payload>".to_string()
        };
        let loc = info
            .location()
            .map(|l| format!("{}:{}", l.file(), l.line()))
            .unwrap_or_else(|| "<unknown>".to_string());
        LAST_PANIC.with(|p| *p.borrow_mut() = Some((msg, loc)));
    }));
}

pub fn run_case_guarded<F: FnOnce() -> Value>(id: &Value, f: F) -> Value {
    LAST_PANIC.with(|p| *p.borrow_mut() = None);
    let res = catch_unwind(AssertUnwindSafe(f));
    match res {
        Ok(mut v) => {
            v["id"] = id.clone();
            v
        }
        Err(_) => {
            let (msg, loc) = LAST_PANIC
                .with(|p| p.borrow_mut().take())
                .unwrap_or(("<unknown>".into(), "<unknown>".into()));
            json!({"id": id.clone(), "panic": {"msg": msg, "loc": loc}})
        }
    }
}

fn main() {
    let args: Vec<String> = std::env::args().collect();
    if args.len() < 2 {
        eprintln!("usage: acbmon <mode>");
        std::process::exit(2);
    }
    let mode = args[1].as_str();
    install_panic_hook();

    let stdin = std::io::stdin();
    // Results go to the file named by argv[2] when given: the library prints a few things
    // with println!, which must not end up inside the result stream.
    let mut out: Box<dyn Write> = match args.get(2) {
        Some(p) => Box::new(std::io::BufWriter::new(
            std::fs::File::create(p).expect("cannot create result file"),
        )),
        None => Box::new(std::io::BufWriter::new(std::io::stdout())),
    };
    for line in stdin.lock().lines() {
        let line = match line {
            Ok(l) => l,
            Err(e) => {
                eprintln!("acbmon: stdin error: {e}");
                std::process::exit(3);
            }
        };
        if line.trim().is_empty() {
            continue;
        }
        let case: Value = match serde_json::from_str(&line) {
            Ok(v) => v,
            Err(e) => {
                eprintln!("acbmon: bad case json: {e}");
                std::process::exit(3);
            }
        };
        let id = case.get("id").cloned().unwrap_or(Value::Null);
        let t0 = std::time::Instant::now();
        let mut res = run_case_guarded(&id, || match mode {
            "app" => app::run_app_case(&case),
            "csvrt" => csvrt::run_csvrt_case(&case),
            "rates" => rates::run_rates_case(&case),
            "cachewrite" => rates::run_cachewrite_case(&case),
            "cacheread" => rates::run_cacheread_case(&case),
            "xlsx" => periph::run_xlsx_case(&case),
            "etrade" => periph::run_etrade_case(&case),
            "fmv" => periph::run_fmv_case(&case),
            "pdf" => periph::run_pdf_case(&case),
            "canary" => app::run_canary_case(&case),
            "clock" => json!({"today_local": acb::util::date::today_local().to_string()}),
            _ => json!({"harness_error": format!("unknown mode {mode}")}),
        });
        res["us"] = json!(t0.elapsed().as_micros() as u64);
        let _ = writeln!(out, "{}", res);
        let _ = out.flush();
    }
}
