// Rate-loader workloads: instrumented cache / remote wrappers, fake HTTP requester,
// and the `rates` mode (histories of runs x look-ups) used by C12, C13 and C14.

use std::cell::RefCell;
use std::collections::HashMap;
use std::path::PathBuf;
use std::rc::Rc;
use std::str::FromStr;

use async_std::task::block_on;
use rust_decimal::Decimal;
use serde_json::{json, Value};

use acb::fx::io::{
    CsvRatesCache, InMemoryRatesCache, JsonRemoteRateLoader, RateLoadResult,
    RateLoader, RatesCache, RemoteRateLoader,
};
use acb::fx::DailyRate;
use acb::util::basic::SError;
use acb::util::date::parse_standard_date;
use acb::util::http::HttpRequester;
use acb::util::rw::WriteHandle;

pub type EventLog = Rc<RefCell<Value>>;

fn log_push(log: &EventLog, ev: Value) {
    if let Value::Array(a) = &mut *log.borrow_mut() {
        a.push(ev);
    }
}

struct LoggingCache {
    inner: Box<dyn RatesCache>,
    log: EventLog,
}

impl RatesCache for LoggingCache {
    fn write_rates(&mut self, year: u32, rates: &Vec<DailyRate>) -> Result<(), SError> {
        let r = self.inner.write_rates(year, rates);
        log_push(
            &self.log,
            json!({"ev": "cache_write", "year": year, "n": rates.len(), "ok": r.is_ok()}),
        );
        r
    }
    fn get_usd_cad_rates(&mut self, year: u32) -> Result<Option<Vec<DailyRate>>, SError> {
        let r = self.inner.get_usd_cad_rates(year);
        let n = match &r {
            Ok(Some(v)) => json!(v.len()),
            Ok(None) => Value::Null,
            Err(e) => json!(format!("err: {e}")),
        };
        log_push(&self.log, json!({"ev": "cache_read", "year": year, "n": n}));
        r
    }
}

struct LoggingRemote {
    inner: Box<dyn RemoteRateLoader>,
    log: EventLog,
}

#[async_trait::async_trait(?Send)]
impl RemoteRateLoader for LoggingRemote {
    async fn get_remote_usd_cad_rates(&self, year: u32) -> Result<RateLoadResult, String> {
        log_push(&self.log, json!({"ev": "download", "year": year}));
        self.inner.get_remote_usd_cad_rates(year).await
    }
}

struct NoNetworkRemote;

#[async_trait::async_trait(?Send)]
impl RemoteRateLoader for NoNetworkRemote {
    async fn get_remote_usd_cad_rates(&self, year: u32) -> Result<RateLoadResult, String> {
        Err(format!("no remote data configured for {year} (acbmon harness: network disabled)"))
    }
}

struct MockRemote {
    years: HashMap<u32, Vec<DailyRate>>,
}

#[async_trait::async_trait(?Send)]
impl RemoteRateLoader for MockRemote {
    async fn get_remote_usd_cad_rates(&self, year: u32) -> Result<RateLoadResult, String> {
        match self.years.get(&year) {
            Some(r) => Ok(RateLoadResult { rates: r.clone(), non_fatal_errors: vec![] }),
            None => Err(format!("No rates set for {year}")),
        }
    }
}

struct FakeHttp {
    bodies: HashMap<u32, String>,
    // (series, year) -> body. When present, the requested series matters, like with the
    // real Bank of Canada API; a (series, year) without data answers with no observations.
    series_bodies: Option<HashMap<(String, u32), String>>,
    urls: Rc<RefCell<Vec<String>>>,
}

#[async_trait::async_trait(?Send)]
impl HttpRequester for FakeHttp {
    async fn get(&self, url: &str) -> Result<String, SError> {
        self.urls.borrow_mut().push(url.to_string());
        // .../observations/<SERIES>/json?start_date=YYYY-01-01&end_date=YYYY-12-31
        let year = url
            .split("start_date=")
            .nth(1)
            .and_then(|s| s.get(0..4))
            .and_then(|s| s.parse::<u32>().ok());
        // Like the real API, serve only the observations inside [start_date, end_date] of the request.
        let range = |name: &str| -> Option<String> {
            url.split(&format!("{name}=")).nth(1).and_then(|s| s.get(0..10)).map(|s| s.to_string())
        };
        let (start, end) = (range("start_date"), range("end_date"));
        let clip = |body: String| -> String {
            let (Some(start), Some(end)) = (start.clone(), end.clone()) else { return body };
            let Ok(mut v) = serde_json::from_str::<serde_json::Value>(&body) else { return body };
            let Some(obs) = v.get_mut("observations").and_then(|o| o.as_array_mut()) else { return body };
            obs.retain(|o| match o.get("d").and_then(|d| d.as_str()) {
                Some(d) if d.len() == 10 => d >= start.as_str() && d <= end.as_str(),
                _ => true,
            });
            v.to_string()
        };
        if let Some(sb) = &self.series_bodies {
            let series = url
                .split("/observations/")
                .nth(1)
                .and_then(|s| s.split('/').next())
                .unwrap_or("")
                .to_string();
            return match year {
                Some(y) => Ok(clip(sb
                    .get(&(series, y))
                    .cloned()
                    .unwrap_or_else(|| "{\"observations\": []}".to_string()))),
                None => Err(format!("fake http: cannot tell the year of {url}")),
            };
        }
        match year.and_then(|y| self.bodies.get(&y)) {
            Some(b) => Ok(clip(b.clone())),
            None => Err(format!("fake http: no body for {url}")),
        }
    }
}

fn parse_rate_list(v: &Value) -> Vec<DailyRate> {
    let mut out = Vec::new();
    if let Some(a) = v.as_array() {
        for e in a {
            let d = e[0].as_str().and_then(|s| parse_standard_date(s).ok());
            let r = e[1].as_str().and_then(|s| Decimal::from_str(s).ok());
            if let (Some(d), Some(r)) = (d, r) {
                out.push(DailyRate::new(d, r));
            }
        }
    }
    out
}

fn make_remote(spec: Option<&Value>, log: &EventLog) -> Box<dyn RemoteRateLoader> {
    let inner: Box<dyn RemoteRateLoader> = match spec {
        None | Some(Value::Null) => Box::new(NoNetworkRemote),
        Some(s) => {
            let kind = s.get("kind").and_then(|k| k.as_str()).unwrap_or("mock");
            let years = s.get("years").and_then(|y| y.as_object());
            if kind == "json" {
                let mut bodies = HashMap::new();
                if let Some(ys) = years {
                    for (y, b) in ys {
                        if let (Ok(y), Some(b)) = (y.parse::<u32>(), b.as_str()) {
                            bodies.insert(y, b.to_string());
                        }
                    }
                }
                let series_bodies = s.get("series").and_then(|x| x.as_object()).map(|ser| {
                    let mut m = HashMap::new();
                    for (name, ys) in ser {
                        if let Some(ys) = ys.as_object() {
                            for (y, b) in ys {
                                if let (Ok(y), Some(b)) = (y.parse::<u32>(), b.as_str()) {
                                    m.insert((name.clone(), y), b.to_string());
                                }
                            }
                        }
                    }
                    m
                });
                let urls = Rc::new(RefCell::new(Vec::new()));
                Box::new(JsonRemoteRateLoader::new(Box::new(FakeHttp { bodies, series_bodies, urls })))
            } else {
                let mut m = HashMap::new();
                if let Some(ys) = years {
                    for (y, b) in ys {
                        if let Ok(y) = y.parse::<u32>() {
                            m.insert(y, parse_rate_list(b));
                        }
                    }
                }
                Box::new(MockRemote { years: m })
            }
        }
    };
    Box::new(LoggingRemote { inner, log: log.clone() })
}

/// Rate loader for `app` cases: in-memory cache, remote from case["remote"] or none.
pub fn make_rate_loader(case: &Value, errh: WriteHandle) -> (RateLoader, EventLog) {
    let log: EventLog = Rc::new(RefCell::new(json!([])));
    let cache: Box<dyn RatesCache> = Box::new(LoggingCache {
        inner: Box::new(InMemoryRatesCache::new()),
        log: log.clone(),
    });
    let remote = make_remote(case.get("remote"), &log);
    let force = case.get("force").and_then(|b| b.as_bool()).unwrap_or(false);
    (RateLoader::new(force, cache, remote, errh), log)
}

/// `rates` mode: a history of runs sharing one cache.
pub fn run_rates_case(case: &Value) -> Value {
    let cache_kind = case.get("cache").and_then(|c| c.as_str()).unwrap_or("mem");
    let dir = case.get("dir").and_then(|d| d.as_str()).map(PathBuf::from);
    let mem = Rc::new(RefCell::new(HashMap::<u32, Vec<DailyRate>>::new()));
    if let Some(pre) = case.get("mem_preload").and_then(|p| p.as_object()) {
        for (y, v) in pre {
            if let Ok(y) = y.parse::<u32>() {
                mem.borrow_mut().insert(y, parse_rate_list(v));
            }
        }
    }

    let mut runs_out = Vec::new();
    let empty = Vec::new();
    let runs = case.get("runs").and_then(|r| r.as_array()).unwrap_or(&empty);
    for run in runs {
        let today = run
            .get("today")
            .and_then(|d| d.as_str())
            .and_then(|s| parse_standard_date(s).ok())
            .unwrap_or_else(|| parse_standard_date("2035-06-15").unwrap());
        acb::util::date::set_todays_date_for_test(today);
        let force = run.get("force").and_then(|b| b.as_bool()).unwrap_or(false);
        let log: EventLog = Rc::new(RefCell::new(json!([])));
        let (errh, errbuf) = WriteHandle::string_buff_write_handle();
        let inner_cache: Box<dyn RatesCache> = if cache_kind == "csv" {
            Box::new(CsvRatesCache::new(dir.clone().expect("csv cache needs dir"), errh.clone()))
        } else if cache_kind == "none" {
            Box::new(InMemoryRatesCache::new())
        } else {
            Box::new(InMemoryRatesCache { rates_by_year: mem.clone() })
        };
        let cache: Box<dyn RatesCache> =
            Box::new(LoggingCache { inner: inner_cache, log: log.clone() });
        let remote = make_remote(run.get("remote"), &log);
        let mut loader = RateLoader::new(force, cache, remote, errh);

        let mut lookups_out = Vec::new();
        let no = Vec::new();
        for l in run.get("lookups").and_then(|l| l.as_array()).unwrap_or(&no) {
            let ds = l.as_str().unwrap_or("");
            let d = match parse_standard_date(ds) {
                Ok(d) => d,
                Err(_) => continue,
            };
            let n_before = log.borrow().as_array().map(|a| a.len()).unwrap_or(0);
            let r = block_on(loader.get_effective_usd_cad_rate(d));
            let evs: Vec<Value> =
                log.borrow().as_array().unwrap()[n_before..].to_vec();
            match r {
                Ok(rate) => lookups_out.push(json!({
                    "date": ds, "rate_date": rate.date.to_string(),
                    "rate": rate.foreign_to_local_rate.to_string(), "events": evs})),
                Err(e) => lookups_out.push(json!({"date": ds, "err": e, "events": evs})),
            }
        }
        runs_out.push(json!({
            "today": today.to_string(),
            "lookups": lookups_out,
            "events": log.borrow().clone(),
            "stderr": errbuf.borrow().as_str(),
        }));
    }
    json!({"runs": runs_out})
}

pub fn run_cachewrite_case(case: &Value) -> Value {
    run_rates_case(case)
}

pub fn run_cacheread_case(case: &Value) -> Value {
    run_rates_case(case)
}
