// `app` mode: drive the real application entry points on one case and record what they report.

use std::collections::HashMap;
use std::path::PathBuf;

use async_std::task::block_on;
use serde_json::{json, Map, Value};

use acb::app::input_parse::parse_initial_status;
use acb::app::outfmt::text::TextWriter;
use acb::app::{
    run_acb_app_summary_to_model, run_acb_app_to_delta_models,
    run_acb_app_to_render_model, run_acb_app_to_writer, Options,
};
use acb::fx::io::RateLoader;
use acb::portfolio::bookkeeping::DeltaListResult;
use acb::portfolio::io::tx_csv::{write_txs_to_csv, TxCsvParseOptions};
use acb::portfolio::render::RenderTable;
use acb::portfolio::{CsvTx, TxActionSpecifics, TxDelta};
use acb::util::date::parse_standard_date;
use acb::util::rw::{DescribedReader, WriteHandle};

use crate::rates::make_rate_loader;

pub fn table_to_json(t: &RenderTable) -> Value {
    json!({
        "header": t.header,
        "rows": t.rows,
        "footer": t.footer,
        "notes": t.notes,
        "errors": t.errors,
    })
}

fn readers_from_case(case: &Value) -> Vec<DescribedReader> {
    let mut v = Vec::new();
    if let Some(files) = case.get("files").and_then(|f| f.as_array()) {
        for f in files {
            if let Some(arr) = f.as_array() {
                let name = arr[0].as_str().unwrap_or("file.csv").to_string();
                let content = arr[1].as_str().unwrap_or("").to_string();
                v.push(DescribedReader::from_string(name, content));
            } else if let Some(p) = f.get("path").and_then(|p| p.as_str()) {
                v.push(DescribedReader::from_file_path(PathBuf::from(p)));
            }
        }
    }
    v
}

fn parse_opts(case: &Value) -> Result<TxCsvParseOptions, String> {
    match case.get("date_fmt").and_then(|d| d.as_str()) {
        Some(f) => Ok(TxCsvParseOptions {
            date_format: Some(acb::util::date::parse_dyn_date_format(f)?),
        }),
        None => Ok(TxCsvParseOptions::default()),
    }
}

fn set_today(case: &Value) {
    let d = case
        .get("today")
        .and_then(|d| d.as_str())
        .and_then(|s| parse_standard_date(s).ok())
        .unwrap_or_else(|| parse_standard_date("2035-06-15").unwrap());
    acb::util::date::set_todays_date_for_test(d);
}

fn dec_s(d: &rust_decimal::Decimal) -> Value {
    Value::String(d.to_string())
}

fn delta_to_json(d: &TxDelta) -> Value {
    let tx = &d.tx;
    let mut o = Map::new();
    o.insert("action".into(), json!(tx.action().pretty_str()));
    o.insert("sec".into(), json!(tx.security));
    o.insert("td".into(), json!(tx.trade_date.to_string()));
    o.insert("sd".into(), json!(tx.settlement_date.to_string()));
    o.insert("af".into(), json!(tx.affiliate.name()));
    o.insert("af_id".into(), json!(tx.affiliate.id()));
    o.insert("registered".into(), json!(tx.affiliate.registered()));
    o.insert("read_index".into(), json!(tx.read_index));
    o.insert("memo".into(), json!(tx.memo));
    o.insert("pre_shares".into(), dec_s(&d.pre_status.share_balance));
    o.insert("pre_all".into(), dec_s(&d.pre_status.all_affiliate_share_balance));
    o.insert(
        "pre_acb".into(),
        d.pre_status.total_acb.map(|a| dec_s(&a)).unwrap_or(Value::Null),
    );
    o.insert("post_shares".into(), dec_s(&d.post_status.share_balance));
    o.insert("post_all".into(), dec_s(&d.post_status.all_affiliate_share_balance));
    o.insert(
        "post_acb".into(),
        d.post_status.total_acb.map(|a| dec_s(&a)).unwrap_or(Value::Null),
    );
    o.insert(
        "gain".into(),
        d.capital_gain.map(|g| dec_s(&g)).unwrap_or(Value::Null),
    );
    match &d.sfl {
        Some(s) => {
            o.insert(
                "sfl".into(),
                json!({
                    "amount": s.superficial_loss.to_string(),
                    "num": s.ratio.numerator.to_string(),
                    "den": s.ratio.denominator.to_string(),
                    "over": s.potentially_over_applied,
                }),
            );
        }
        None => {
            o.insert("sfl".into(), Value::Null);
        }
    }
    match &tx.action_specifics {
        TxActionSpecifics::Buy(b) => {
            o.insert("shares".into(), dec_s(&b.shares));
            o.insert("aps".into(), dec_s(&b.amount_per_share));
            o.insert("comm".into(), dec_s(&b.commission));
            o.insert("fx".into(), dec_s(&b.tx_currency_and_rate.exchange_rate));
            o.insert(
                "cfx".into(),
                dec_s(&b.commission_currency_and_rate().exchange_rate),
            );
        }
        TxActionSpecifics::Sell(b) => {
            o.insert("shares".into(), dec_s(&b.shares));
            o.insert("aps".into(), dec_s(&b.amount_per_share));
            o.insert("comm".into(), dec_s(&b.commission));
            o.insert("fx".into(), dec_s(&b.tx_currency_and_rate.exchange_rate));
            o.insert(
                "cfx".into(),
                dec_s(&b.commission_currency_and_rate().exchange_rate),
            );
            if let Some(s) = &b.specified_superficial_loss {
                o.insert(
                    "spec_sfl".into(),
                    json!({"amount": s.superficial_loss.to_string(), "force": s.force}),
                );
            }
        }
        TxActionSpecifics::Roc(r) => {
            o.insert("aps".into(), dec_s(&r.amount_per_held_share));
            o.insert("fx".into(), dec_s(&r.tx_currency_and_rate.exchange_rate));
        }
        TxActionSpecifics::Sfla(s) => {
            o.insert("shares".into(), dec_s(&s.shares_affected));
            o.insert("aps".into(), dec_s(&s.amount_per_share));
        }
        TxActionSpecifics::Split(s) => {
            o.insert("post".into(), dec_s(&s.ratio.post_split));
            o.insert("pre".into(), dec_s(&s.ratio.pre_split));
            o.insert("int_only".into(), json!(s.ratio.reverse_integer_only));
        }
    }
    Value::Object(o)
}

fn deltas_to_json(res: &HashMap<String, DeltaListResult>) -> Value {
    let mut o = Map::new();
    for (sec, r) in res {
        let (ok, err) = match &r.0 {
            Ok(_) => (true, Value::Null),
            Err(e) => (false, json!(e.err_msg)),
        };
        let ds: Vec<Value> =
            r.deltas_or_partial_deltas().iter().map(delta_to_json).collect();
        o.insert(sec.clone(), json!({"ok": ok, "err": err, "deltas": ds}));
    }
    Value::Object(o)
}

fn wants(case: &Value, what: &str) -> bool {
    match case.get("want").and_then(|w| w.as_array()) {
        Some(a) => a.iter().any(|x| x.as_str() == Some(what)),
        None => what == "model",
    }
}

pub fn run_app_case(case: &Value) -> Value {
    set_today(case);
    let mut out = Map::new();

    let init_strs: Vec<String> = case
        .get("init")
        .and_then(|i| i.as_array())
        .map(|a| a.iter().filter_map(|s| s.as_str().map(String::from)).collect())
        .unwrap_or_default();
    let full = case.get("full").and_then(|b| b.as_bool()).unwrap_or(true);
    let costs = case.get("costs").and_then(|b| b.as_bool()).unwrap_or(false);

    let init = match parse_initial_status(&init_strs) {
        Ok(i) => i,
        Err(e) => {
            return json!({"ok": false, "stage": "init", "err": format!("Error parsing --symbol-base: {e}")});
        }
    };
    let popts = match parse_opts(case) {
        Ok(p) => p,
        Err(e) => {
            return json!({"ok": false, "stage": "date_fmt", "err": format!("Error parsing --date-fmt: {e}")});
        }
    };

    // Summary mode
    if let Some(summ) = case.get("summary") {
        let date = match parse_standard_date(summ["date"].as_str().unwrap_or("")) {
            Ok(d) => d,
            Err(e) => return json!({"ok": false, "stage": "summary_date", "err": e.to_string()}),
        };
        let annual = summ.get("annual").and_then(|b| b.as_bool()).unwrap_or(false);
        let (errh, errbuf) = WriteHandle::string_buff_write_handle();
        let (loader, _log) = make_rate_loader(case, errh.clone());
        let options = Options {
            render_full_dollar_values: full,
            summary_mode_latest_date: Some(date),
            split_annual_summary_gains: annual,
            render_total_costs: false,
            csv_output_dir: None,
            csv_parse_options: popts,
        };
        let res = block_on(run_acb_app_summary_to_model(
            date,
            readers_from_case(case),
            init.clone(),
            options,
            loader,
            errh,
        ));
        let stderr = errbuf.borrow().as_str().to_string();
        return match res {
            Ok(data) => {
                let csv_txs: Vec<CsvTx> =
                    data.txs.into_iter().map(CsvTx::from).collect();
                let mut buf = Vec::<u8>::new();
                if !csv_txs.is_empty() {
                    if let Err(e) = write_txs_to_csv(&csv_txs, &mut buf) {
                        return json!({"ok": false, "stage": "summary_write", "err": e.to_string()});
                    }
                }
                let mut warns: Vec<(String, Vec<String>)> =
                    data.warnings.into_iter().collect();
                warns.sort();
                json!({"ok": true, "summary_csv": String::from_utf8_lossy(&buf), "n_txs": csv_txs.len(),
                       "warnings": warns, "stderr": stderr})
            }
            Err(e) => {
                let mut secs: Vec<(String, String)> = e.sec_errors.into_iter().collect();
                secs.sort();
                json!({"ok": false, "stage": "summary", "err": e.general_error, "sec_errors": secs, "stderr": stderr})
            }
        };
    }

    if wants(case, "model") {
        let (errh, errbuf) = WriteHandle::string_buff_write_handle();
        let (loader, log) = make_rate_loader(case, errh.clone());
        let res = block_on(run_acb_app_to_render_model(
            readers_from_case(case),
            init.clone(),
            &popts,
            full,
            costs,
            loader,
            errh,
        ));
        out.insert("stderr".into(), json!(errbuf.borrow().as_str()));
        out.insert("ratelog".into(), log.borrow().clone());
        match res {
            Ok(r) => {
                out.insert("ok".into(), json!(true));
                let mut tabs = Map::new();
                for (sec, t) in &r.security_tables {
                    tabs.insert(sec.clone(), table_to_json(t));
                }
                out.insert("tables".into(), Value::Object(tabs));
                out.insert("agg".into(), table_to_json(&r.aggregate_gains_table));
                if let Some(c) = &r.costs_tables {
                    out.insert(
                        "costs".into(),
                        json!({"total": table_to_json(&c.total), "yearly": table_to_json(&c.yearly)}),
                    );
                }
            }
            Err(e) => {
                out.insert("ok".into(), json!(false));
                out.insert("err".into(), json!(e));
            }
        }
    }

    if wants(case, "text") {
        // Exactly what the web UI shim does: TextWriter over a string buffer.
        let (outh, outbuf) = WriteHandle::string_buff_write_handle();
        let (errh, errbuf) = WriteHandle::string_buff_write_handle();
        let (loader, _log) = make_rate_loader(case, errh.clone());
        let mut writer = TextWriter::new(outh);
        let res = block_on(run_acb_app_to_writer(
            &mut writer,
            readers_from_case(case),
            init.clone(),
            &popts,
            full,
            costs,
            loader,
            errh,
        ));
        out.insert("text_ok".into(), json!(res.is_ok()));
        out.insert("text".into(), json!(outbuf.borrow().as_str()));
        out.insert("text_stderr".into(), json!(errbuf.borrow().as_str()));
    }

    if wants(case, "deltas") {
        let (errh, _errbuf) = WriteHandle::string_buff_write_handle();
        let (loader, _log) = make_rate_loader(case, errh.clone());
        let res = block_on(run_acb_app_to_delta_models(
            readers_from_case(case),
            init.clone(),
            &popts,
            loader,
            errh,
        ));
        match res {
            Ok(r) => {
                out.insert("deltas".into(), deltas_to_json(&r));
            }
            Err(e) => {
                out.insert("deltas_err".into(), json!(e));
            }
        }
    }

    Value::Object(out)
}

/// Reports the iteration order of a HashMap/HashSet keyed like the library's own maps, as a
/// witness of which hash schedule this process got (C09).
pub fn run_canary_case(case: &Value) -> Value {
    let keys: Vec<String> = case
        .get("keys")
        .and_then(|k| k.as_array())
        .map(|a| a.iter().filter_map(|s| s.as_str().map(String::from)).collect())
        .unwrap_or_default();
    let mut m = HashMap::<String, u32>::new();
    for (i, k) in keys.iter().enumerate() {
        m.insert(k.clone(), i as u32);
    }
    let order: Vec<String> = m.keys().cloned().collect();
    json!({"order": order})
}
