#!/bin/bash
# usage: tools_run_all.sh <tier> <seed> [ids...]  -- runs the checks one after another, prints exit codes
TIER=$1; export VERIF_SEED=$2; shift 2
IDS="$@"; [ -z "$IDS" ] && IDS=$(printf 'C%02d ' $(seq 1 20))
for ID in $IDS; do
  S=$(date +%s)
  ./check $ID $TIER > /tmp/runall_$ID.txt 2>&1; RC=$?
  echo "$ID $TIER seed=$VERIF_SEED rc=$RC $(( $(date +%s) - S ))s $(grep -c '^VIOLATION' /tmp/runall_$ID.txt) violations, $(grep -c '^KNOWN-FINDING' /tmp/runall_$ID.txt) known"
  [ $RC -ne 0 ] && grep -m5 "violation:\|INCONCLUSIVE\|Traceback\|Error" /tmp/runall_$ID.txt | cut -c1-400
done
