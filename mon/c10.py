"""C10: a summary CSV reproduces the history it replaces (round trip through the real summary path)."""
import datetime
import json
import multiprocessing
import os
import sys
from fractions import Fraction

sys.path.insert(0, os.path.dirname(os.path.abspath(__file__)))
import common
import gen
import ref
from common import Verdict
from ledger import history_to_case, mkrow, ALL_AFS

PROP = "C10"
EPS = ref.EPS


def profile(rng):
    return gen.Knobs(affiliates=rng.choice(ALL_AFS), n_secs=(1, 2), n_rows=(4, 40), opening=0.0,
                     offsets=[0, 0, 1, 2, 5, 10, 14, 20, 28, 29, 30, 31, 32, 45, 90, 200, 370], p_loss_bias=0.7,
                     p_invalid=0.0, td_lag=[0, 0, 1, 2, 2, 3],
                     weights={"Buy": 5, "Sell": 5, "RoC": 0.8, "SfLA": 0.0, "Split": 0.7})


def d6_family(rng, n):
    """Gain sale, summary date shortly after, then a loss sale within 30 days of the summary Buy."""
    out = []
    for i in range(n):
        y = rng.randint(2015, 2022)
        d0 = datetime.date(y, rng.randint(1, 10), rng.randint(1, 28))
        p0 = Fraction(rng.randint(500, 3000), 100)
        rows = [mkrow("FOO", d0.isoformat(), "Buy", "", shares="10", aps=gen.dec_str(p0, 2), cur="CAD")]
        s1 = d0 + datetime.timedelta(days=rng.choice([40, 60, 100]))
        rows.append(mkrow("FOO", s1.isoformat(), "Sell", "", shares="5", aps=gen.dec_str(p0 + rng.randint(1, 9), 2), cur="CAD"))
        s2 = s1 + datetime.timedelta(days=rng.choice([1, 5, 19, 29, 30, 31, 45]))
        rows.append(mkrow("FOO", s2.isoformat(), "Sell", "", shares="2", aps=gen.dec_str(p0 - rng.randint(1, 4), 2), cur="CAD"))
        if rng.random() < 0.5:
            rows.append(mkrow("FOO", (s2 + datetime.timedelta(days=rng.choice([3, 29, 31, 60]))).isoformat(), "Buy", rng.choice(["", "Spouse"]),
                              shares="1", aps=gen.dec_str(p0, 2), cur="CAD"))
        out.append(("d6 #%d" % i, {"rows": rows, "init": {}, "features": ["d6_family"]}, [s1.isoformat(), (s1 + datetime.timedelta(days=4)).isoformat()]))
        if i % 5 == 0:
            # a summarised year whose gains and (non-superficial) losses cancel exactly, followed by later activity
            y2 = rng.randint(2015, 2021)
            q = rng.choice([2, 3, 5])
            g = rng.randint(1, 9)
            rz = [mkrow("ZED", "%d-01-10" % y2, "Buy", "", shares=str(4 * q), aps="20.00", cur="CAD"),
                  mkrow("ZED", "%d-03-10" % y2, "Sell", "", shares=str(q), aps=gen.dec_str(Fraction(20 + g), 2), cur="CAD"),
                  mkrow("ZED", "%d-09-10" % y2, "Sell", "", shares=str(q), aps=gen.dec_str(Fraction(20 - g), 2), cur="CAD"),
                  mkrow("ZED", "%d-03-15" % (y2 + 1), "Buy", "", shares="7", aps="31.50", cur="CAD"),
                  mkrow("ZED", "%d-08-15" % (y2 + 1), "Sell", "", shares=str(2 * q + 7), aps="17.00", cur="CAD")]
            out.append(("zero-net year #%d" % i, {"rows": rz, "init": {}, "features": ["zero_net_year"]},
                        ["%d-12-31" % y2, "%d-02-01" % (y2 + 1), "%d-10-15" % y2]))
        if i % 5 == 2:
            # a loss sale declared "not superficial" by the user (0!), carried over next to a re-purchase
            yz = rng.randint(2015, 2021)
            b0 = datetime.date(yz, rng.randint(2, 9), rng.randint(1, 25))
            D_ = lambda k: (b0 + datetime.timedelta(days=k)).isoformat()
            ro = [mkrow("OVR", D_(-200), "Buy", "", shares="20", aps="30.00", cur="CAD"),
                  mkrow("OVR", D_(0), "Sell", "", shares="4", aps="25.00", cur="CAD", sfl=rng.choice(["0!", "0"]) if False else "0!"),
                  mkrow("OVR", D_(5), "Buy", "", shares="3", aps="24.00", cur="CAD"),
                  mkrow("OVR", D_(20), "Sell", "", shares="2", aps="22.00", cur="CAD"),
                  mkrow("OVR", D_(300), "Sell", "", shares="5", aps="40.00", cur="CAD")]
            out.append(("declared zero #%d" % i, {"rows": ro, "init": {}, "features": ["declared_zero"]}, [D_(1), D_(6), D_(0)]))
        if i % 5 == 1:
            # a second non-registered affiliate whose first transaction comes years after the first one's, the
            # first one having a net loss in the year before
            y3 = rng.randint(2014, 2019)
            other = rng.choice(["Spouse", "Kid"])
            rl = [mkrow("LATE", "%d-02-10" % y3, "Buy", "", shares="100", aps="10.00", cur="CAD"),
                  mkrow("LATE", "%d-06-10" % (y3 + 1), "Sell", "", shares="20", aps=gen.dec_str(Fraction(10 - rng.randint(1, 4)), 2), cur="CAD"),
                  mkrow("LATE", "%d-03-12" % (y3 + 2), "Buy", other, shares="40", aps="6.00", cur="CAD"),
                  mkrow("LATE", "%d-05-03" % (y3 + 3), "Sell", other, shares="10", aps="8.00", cur="CAD"),
                  mkrow("LATE", "%d-07-03" % (y3 + 3), "Sell", "", shares="10", aps="12.00", cur="CAD")]
            out.append(("late affiliate #%d" % i, {"rows": rl, "init": {}, "features": ["late_affiliate"]},
                        ["%d-12-31" % (y3 + 2), "%d-04-01" % (y3 + 3), "%d-04-01" % (y3 + 2)]))
    return out


def cut_dates(rng, h, k):
    sds = sorted({r["sd"] for r in h["rows"]})
    cand = set(sds)
    for s in sds:
        d = datetime.date.fromisoformat(s)
        for off in (-1, 1):
            cand.add((d + datetime.timedelta(days=off)).isoformat())
    for r in h["rows"]:
        if r["action"] == "Sell":
            d = datetime.date.fromisoformat(r["sd"])
            for off in (-31, -30, -29, 29, 30, 31):
                cand.add((d + datetime.timedelta(days=off)).isoformat())
    cand = sorted(c for c in cand if c >= sds[0])
    rng.shuffle(cand)
    return cand[:k]


def later_rows(t, col, D):
    # A split for all affiliates is reported once per affiliate known to the run; the copy for
    # an affiliate that holds nothing (0 shares before and after) carries no figure and exists
    # only in the run that still knows that affiliate.
    def empty_split(r):
        return (r[col["TX"]] == "Split" and Fraction(r[col["Shares"]]) == 0
                and Fraction(r[col["Share Balance"]].split(" ")[0]) == 0)
    return [r for r in t["rows"] if r[col["Settl. Date"]] > D and not empty_split(r)]


def row_figs(r, col):
    g, s = ref.parse_gain_cell(r[col["Cap. Gain"]])
    own, allb, _ = ref.parse_balance_cell(r[col["Share Balance"]])
    return {"tx": r[col["TX"]], "sd": r[col["Settl. Date"]], "af": ref.af_norm(r[col["Affiliate"]]), "gain": g,
            "sfl": s["amount"] if s else None, "own": own, "all": allb, "acb": ref.money(r[col["New ACB"]])}


def final_holdings(t, col):
    out = {}
    for r in t["rows"]:
        f = row_figs(r, col)
        cur = out.get(f["af"], (None, None))
        out[f["af"]] = (f["own"] if f["own"] is not None else cur[0], f["acb"] if r[col["New ACB"]] != "-" else cur[1])
    return out


def yearly_gains(t, col, upto=None):
    out = {}
    for r in t["rows"]:
        if upto is not None and r[col["Settl. Date"]] > upto:
            continue
        f = row_figs(r, col)
        if f["gain"] is not None:
            k = (f["sd"][:4], f["af"])
            out[k] = out.get(k, Fraction(0)) + f["gain"]
    return out


def _split_pairs(h, D, later_global):
    def day(x):
        return datetime.date.fromisoformat(x)
    sp = [r for r in h["rows"] if r["action"] == "Split"]
    for a in sp:
        if a["sd"] <= D or (((a.get("af") or "").strip() == "") != later_global):
            continue
        for b in sp:
            if b["sd"] <= D and b["sec"] == a["sec"] and abs((day(a["td"]) - day(b["td"])).days) <= 1:
                return True
    return False


def later_global_split_near_earlier_split(h, D):
    """Input feature used by a known-finding signature: a split for all affiliates (blank affiliate) settles after D and
    is traded within a day of a split of the same security that settles on or before D. (The summary carries the
    earlier split as one row per affiliate; next to the later all-affiliates split the load-stage guard against
    duplicate split entries refuses the pair.)"""
    return _split_pairs(h, D, True)


def later_explicit_split_near_earlier_split(h, D):
    """The sibling situation repaired by fix da97714 (the later split names an affiliate); reported separately so that
    the known finding above does not cover it."""
    return _split_pairs(h, D, False)


def compare(full, summ_alone, replay, D, annual, h):
    """full: run of H; replay: run of [summary.csv, rows after D]; summ_alone: run of summary.csv alone."""
    if not replay.get("ok"):
        return {"what": "feeding the summary plus the later rows fails", "err": replay.get("err"),
                "later_global_split_near_earlier_split": later_global_split_near_earlier_split(h, D)}
    if annual:
        # Cause first: a synthetic yearly "gain summary (sell)" row must not itself be superficial.
        for sec, t2 in replay["tables"].items():
            col = {x: i for i, x in enumerate(t2["header"])}
            for r in t2["rows"]:
                if r[col["TX"]] == "Sell" and "gain summary (sell)" in r[col["Memo"]].replace("\n", " "):
                    g, sfl = ref.parse_gain_cell(r[col["Cap. Gain"]])
                    if sfl is not None:
                        # input feature for the known-finding signature: the original history has a real purchase of
                        # this security settling within 30 days of that 1 January (the known shape); without one, the
                        # only purchases near that date are rows the summary itself made up
                        j1 = datetime.date.fromisoformat(r[col["Settl. Date"]])
                        real = any(x["sec"] == sec and x["action"] == "Buy" and abs((datetime.date.fromisoformat(x["sd"]) - j1).days) <= 30 for x in h["rows"])
                        return {"what": "annual summary: a yearly 'gain summary (sell)' row at a loss is treated as superficial",
                                "sec": sec, "summary_row_date": r[col["Settl. Date"]], "sfl": str(sfl["amount"]),
                                "real_purchase_within_30_days_of_that_jan1": real}
    for sec, t in full["tables"].items():
        col = {x: i for i, x in enumerate(t["header"])}
        t2 = replay["tables"].get(sec)
        lr = later_rows(t, col, D)
        if t2 is None:
            if lr or any(v[0] for v in final_holdings(t, col).values()):
                return {"what": "security missing after the round trip", "sec": sec}
            continue
        if t2["errors"]:
            return {"what": "the round trip is rejected", "sec": sec, "err": t2["errors"][0]}
        lr2 = later_rows(t2, col, D)
        if len(lr) != len(lr2):
            return {"what": "number of later rows differs", "sec": sec, "full": len(lr), "roundtrip": len(lr2)}
        for i, (a, b) in enumerate(zip(lr, lr2)):
            fa, fb = row_figs(a, col), row_figs(b, col)
            if (fa["tx"], fa["sd"], fa["af"]) != (fb["tx"], fb["sd"], fb["af"]):
                return {"what": "later rows do not line up", "sec": sec, "row": i, "full": [fa["tx"], fa["sd"], fa["af"]], "roundtrip": [fb["tx"], fb["sd"], fb["af"]]}
            for k, label in (("gain", "capital gain"), ("sfl", "superficial loss"), ("own", "share balance"), ("all", "all-affiliate share balance"), ("acb", "cost base")):
                if not ref.close(fa[k], fb[k]):
                    return {"what": "later row differs after the round trip: " + label, "sec": sec, "row": i, "date": fa["sd"],
                            "full": str(fa[k]), "roundtrip": str(fb[k])}
        ha, hb = final_holdings(t, col), final_holdings(t2, col)
        for af in set(ha) | set(hb):
            sa, ca = ha.get(af, (Fraction(0), None))
            sb, cb = hb.get(af, (Fraction(0), None))
            if not ref.close(sa or Fraction(0), sb or Fraction(0)):
                return {"what": "final holdings differ after the round trip", "sec": sec, "af": af, "full": str(sa), "roundtrip": str(sb)}
            if (sa or 0) != 0 and not ref.close(ca, cb):
                return {"what": "final cost base differs after the round trip", "sec": sec, "af": af, "full": str(ca), "roundtrip": str(cb)}
    if annual:
        # the summary's own rows (those settling on or before D in the round trip) reproduce each
        # past year's net gain per non-registered affiliate
        for sec, t in full["tables"].items():
            col = {x: i for i, x in enumerate(t["header"])}
            ts = replay["tables"].get(sec)
            want = {k: v for k, v in yearly_gains(t, col, upto=D).items() if not ref.is_reg(k[1])}
            got = {}
            if ts is not None:
                got = {k: v for k, v in yearly_gains(ts, col, upto=D).items() if not ref.is_reg(k[1])}
            for k in set(want) | set(got):
                a, b = want.get(k, Fraction(0)), got.get(k, Fraction(0))
                if not ref.close(a, b):
                    # observed cause, used by a known-finding signature: the affiliate's holding at the summary date
                    # was at some point rounding dust (positive, below 1e-15 share) that the summary's base purchase has to carry, so the summary's per-share base price is astronomic
                    own = None
                    for r in t["rows"]:
                        f_ = row_figs(r, col)
                        if f_["sd"] <= D and f_["af"] == k[1] and f_["own"] is not None and 0 < f_["own"] < Fraction(1, 10 ** 15):
                            own = f_["own"]      # a sold-out position left with rounding dust before the summary date
                    return {"what": "annual summary does not reproduce a past year's net gain", "sec": sec, "year": k[0], "af": k[1],
                            "full": str(a), "summary": str(b),
                            "dust_holding_at_summary_date": bool(own is not None and 0 < own < Fraction(1, 10 ** 15))}
    return None


def nontrivial(h, D):
    d = datetime.date.fromisoformat(D)
    afs = {ref.af_norm(r.get("af")) for r in h["rows"] if r["action"] != "Split"}
    near = any(r["action"] in ("Sell", "Buy") and abs((datetime.date.fromisoformat(r["sd"]) - d).days) <= 30 for r in h["rows"])
    split_across = any(r["action"] == "Split" for r in h["rows"])
    return near or len(afs) >= 2 or split_across


def _worker(shard):
    # stage 1: full runs + summaries
    stage1 = []
    plan = []
    for cid, name, h, dates in shard:
        stage1.append(history_to_case(cid + "#full", h))
        for di, D in enumerate(dates):
            for annual in (False, True):
                c = history_to_case("%s#S%d%d" % (cid, di, annual), h)
                c["summary"] = {"date": D, "annual": annual}
                stage1.append(c)
                plan.append((cid, di, D, annual))
    r1 = common.run_harness("app", stage1, tag="c10a", nproc=1)
    # stage 2: replays
    stage2 = []
    hist = {cid: (name, h) for cid, name, h, dates in shard}
    for cid, di, D, annual in plan:
        s = r1.get("%s#S%d%d" % (cid, di, annual), {})
        if not s.get("ok"):
            continue
        name, h = hist[cid]
        later = [r for r in h["rows"] if r["sd"] > D]
        files = []
        if s["summary_csv"]:
            files.append(["summary.csv", s["summary_csv"]])
        if later:
            files.append(["later.csv", gen.rows_to_csv(later, gen.used_cols(later))])
        if not files:
            continue
        stage2.append({"id": "%s#R%d%d" % (cid, di, annual), "files": files, "init": [], "full": True, "want": ["model"]})
        if annual and s["summary_csv"]:
            stage2.append({"id": "%s#A%d%d" % (cid, di, annual), "files": [["summary.csv", s["summary_csv"]]], "init": [], "full": True, "want": ["model"]})
    r2 = common.run_harness("app", stage2, tag="c10b", nproc=1)
    out = []
    for cid, name, h, dates in shard:
        full = r1.get(cid + "#full", {})
        j = {"cid": cid, "name": name, "unjudged": False, "findings": [], "trips": 0, "nontrivial": 0}
        if not full.get("ok") or any(t["errors"] for t in full["tables"].values()):
            j["unjudged"] = True      # the statement is about error-free histories
            out.append(j)
            continue
        for di, D in enumerate(dates):
            for annual in (False, True):
                s = r1.get("%s#S%d%d" % (cid, di, annual), {})
                if "panic" in s or "crash" in s:
                    continue
                if not s.get("ok"):
                    j["findings"].append({"what": "summary generation fails for an error-free history", "date": D, "annual": annual,
                                          "err": s.get("err"), "sec_errors": s.get("sec_errors")})
                    j["history"] = h
                    break
                rp = r2.get("%s#R%d%d" % (cid, di, annual))
                if rp is None:
                    continue
                if "panic" in rp or "crash" in rp:
                    continue
                j["trips"] += 1
                if nontrivial(h, D):
                    j["nontrivial"] += 1
                try:
                    d = compare(full, r2.get("%s#A%d%d" % (cid, di, annual)), rp, D, annual, h)
                except ValueError as e:
                    d = {"what": "unparsable cell", "err": str(e)}
                if d:
                    d["date"] = D
                    d["annual"] = annual
                    j["findings"].append(d)
                    j["history"] = h
                    j["summary_csv"] = s["summary_csv"]
        if not j["findings"] and len(out) < 1 and dates:
            s = r1.get("%s#S%d%d" % (cid, 0, False), {})
            j["sample"] = {"history": gen.rows_to_csv(h["rows"], gen.used_cols(h["rows"]))[:500], "summary_date": dates[0],
                           "summary_csv": (s.get("summary_csv") or "")[:500]}
        out.append(j)
    return out


KNOWN_SIG_KEYS = ("what",)


def run(tier):
    seed = common.seed()
    common.build(bins=True)
    V = Verdict(PROP, tier)
    V.rule = ("error-free generated histories (1-2 securities, 1-4 affiliates, splits, loss sales) x summary dates drawn from every settlement date, +-1 day and "
              "+-29/30/31 days around every sale x both summary modes; the summary comes from the real summary entry point and CSV writer and is fed back "
              "with the rows settling after the date; non-trivial = a buy or sale within 30 days of the summary date, or >=2 affiliates, or a split")
    n = {"quick": 500, "thorough": 15000}[tier]
    K = {"quick": 5, "thorough": 20}[tier]
    pop = []
    rng = common.rng_for(seed, PROP, "d6")
    for name, hh, dates in d6_family(rng, 60 if tier == "quick" else 1500):
        pop.append((common.case_id(seed, PROP, "d6", len(pop)), name, hh, dates))
    for i in range(n):
        rng = common.rng_for(seed, PROP, i)
        hh = gen.HistoryGen(rng, profile(rng)).gen()
        if not hh["rows"]:
            continue
        pop.append((common.case_id(seed, PROP, i), "random #%d" % i, hh, cut_dates(rng, hh, K)))
    nsh = common.NPROC * 4
    shards = [s for s in (pop[i::nsh] for i in range(nsh)) if s]
    with multiprocessing.Pool(common.NPROC) as pool:
        parts = pool.map(_worker, shards)
    for part in parts:
        for j in part:
            V.count()
            if j["unjudged"]:
                V.unjudged += 1
                continue
            V.bump("round_trips", j["trips"])
            if j["nontrivial"]:
                V.nontriv(j["cid"])
            if "sample" in j:
                V.sample(j["sample"], cap=2)
            seen_kinds = set()
            for f in j["findings"]:
                kind = (f["what"], f.get("annual"), str(f.get("err", ""))[:40], f.get("later_global_split_near_earlier_split"),
                        f.get("dust_holding_at_summary_date"), f.get("real_purchase_within_30_days_of_that_jan1"))
                if kind in seen_kinds:
                    continue
                seen_kinds.add(kind)
                sig = {"what": f["what"], "annual": f.get("annual"), "err": str(f.get("err", "")),
                       "later_global_split_near_earlier_split": bool(f.get("later_global_split_near_earlier_split")),
                       "dust_holding_at_summary_date": bool(f.get("dust_holding_at_summary_date")),
                       "real_purchase_within_30_days_of_that_jan1": bool(f.get("real_purchase_within_30_days_of_that_jan1"))}
                V.violation("%s [%s]" % (json.dumps(f)[:500], j["name"]),
                            {"kind": "summary_trip", "prop": PROP, "history": j["history"], "finding": f,
                             "summary_csv": j.get("summary_csv")}, sig)
    cli_sample(V, pop, 6 if tier == "quick" else 60)
    return V.finish(floor_eval=100, floor_nontrivial=10, floors={"round_trips": 1000, "binary_trips": 3})


def cli_sample(V, pop, k):
    """The same round trip through the real binary: acb --summarize-before D > summary.csv; acb summary.csv later.csv."""
    wd = common.workdir("c10cli")
    try:
        for cid, name, h, dates in pop[-k:]:
            if not dates:
                continue
            D = dates[0]
            inp = os.path.join(wd, cid + ".csv")
            open(inp, "w").write(gen.rows_to_csv(h["rows"], gen.used_cols(h["rows"])))
            for annual in (False, True):
                args = [inp, "--summarize-before", D] + (["--summarize-annual-gains"] if annual else [])
                r = common.run_cli("acb", args, home=wd)
                lib = common.run_harness("app", [dict(history_to_case("s", h), summary={"date": D, "annual": annual})], tag="c10s", nproc=1)["s"]
                if r["rc"] != 0 or not lib.get("ok"):
                    if (r["rc"] == 0) != bool(lib.get("ok")):
                        V.violation("binary and library disagree on whether the summary can be made [%s D=%s]" % (name, D),
                                    {"kind": "summary_cli", "prop": PROP, "history": h, "date": D}, {"what": "binary/library summary disagreement"})
                    continue
                V.bump("binary_trips")
                if r["out"].decode("utf-8", "replace") != lib["summary_csv"]:
                    V.violation("summary CSV printed by the binary differs from the library's [%s D=%s annual=%s]" % (name, D, annual),
                                {"kind": "summary_cli", "prop": PROP, "history": h, "date": D}, {"what": "binary summary differs"})
    finally:
        common.cleanup(wd)


def replay(rec):
    c = rec["case"]
    h = c["history"]
    f = c.get("finding", {})
    common.build()
    dates = [f["date"]] if f.get("date") else []
    j = _worker([("r", "replay", h, dates)])[0]
    print(gen.rows_to_csv(h["rows"], gen.used_cols(h["rows"])))
    if j["findings"]:
        print("replay finding:", json.dumps(j["findings"])[:800])
        print("VIOLATION property=%s replay=%s" % (PROP, sys.argv[2]))
        return 1
    print("replay: no finding reproduced")
    return 0


if __name__ == "__main__":
    sys.exit(common.main_dispatch(PROP, run, replay))
