"""C11: writing transactions to CSV and reading them back is the identity."""
import csv
import io
import json
import os
import sys
from fractions import Fraction

sys.path.insert(0, os.path.dirname(os.path.abspath(__file__)))
import common
import gen
import ref
from common import Verdict

PROP = "C11"

MEMOS = ["C:\\statements\\jan.pdf, page 2", "ends in a backslash, quoted\\", "back\\slash alone", "\\\"escaped\\\" quote", "", "plain", "with, comma", 'with "quotes"', "line1\nline2", "cr\r\nlf", "ünïcödé ✓ 日本", "=SUM(A1)", "-leading dash", "+plus", "@at",
         "  padded  ", "\ttab", "trailing space ", "a" * 300, "semi;colon", "back\\slash", "'single'", "\"", ",", "\n", "x,\"y\"\n,z", "null", "N/A", "0"]
AFFILS = [None, "Default", "default", "Default (R)", "(R)", "(r)", "Spouse", "spouse", "Spouse (R)", "spouse(R)", "  B  ", "B", "b (R)", "Kid  Two", "Ñandú",
          "Default  (R)", "R", "(R) Spouse", "Mary  Ann  Smith", "A  B   C (R)"]
CURS = ["CAD", "USD", "EUR", "GBP", "XBT"]


def rand_decimal(rng, positive=True, allow_zero=False, big=False):
    """A decimal literal with scale 0..28 and up to 28 significant digits."""
    style = rng.random()
    if allow_zero and style < 0.07:
        return rng.choice(["0", "0.0", "0.00", "0.000000"])
    if style < 0.15:
        scale = rng.randint(11, 28)
    else:
        scale = rng.randint(0, 10)
    ndig = rng.randint(1, 28 if style < 0.3 or big else 12)
    digits = str(rng.randint(1, 9)) + "".join(str(rng.randint(0, 9)) for _ in range(ndig - 1))
    if rng.random() < 0.3:
        # trailing zeros in the literal
        tz = rng.randint(1, min(3, ndig))
        digits = digits[:-tz] + "0" * tz if ndig > tz else digits
    n = int(digits)
    if n >= 79228162514264337593543950335:
        n = n // 10
    if n == 0:
        n = 1
    s = str(n)
    if scale:
        s = s.rjust(scale + 1, "0")
        s = s[:-scale] + "." + s[-scale:]
    return s


def cur_fields(rng, prefix_cur, prefix_fx, d):
    c = rng.choice(CURS)
    d[prefix_cur] = c
    if c != "CAD":
        d[prefix_fx] = rand_decimal(rng)
    elif rng.random() < 0.2:
        d[prefix_fx] = rng.choice(["1", "1.0", "1.000"])


def gen_tx(rng, i, only_default_af):
    action = rng.choice(["Buy", "Buy", "Sell", "Sell", "RoC", "SfLA", "Split"])
    y = rng.randint(1990, 2090)
    td = "%04d-%02d-%02d" % (y, rng.randint(1, 12), rng.randint(1, 28))
    sd = td if rng.random() < 0.4 else "%04d-%02d-%02d" % (y + rng.choice([0, 0, 1]), rng.randint(1, 12), rng.randint(1, 28))
    t = {"sec": rng.choice(["FOO", "BAR.TO", "X", "USD.FX", "A B", "ÄÖ", "foo", "BRK.B", "1234"]), "td": td, "sd": sd, "action": action}
    if rng.random() < 0.7:
        t["memo"] = rng.choice(MEMOS)
    af = None if only_default_af else rng.choice(AFFILS)
    if only_default_af and rng.random() < 0.5:
        af = rng.choice(["Default", "default", None])
    if af is not None:
        t["af"] = af
    if action in ("Buy", "Sell"):
        t["shares"] = rand_decimal(rng)
        t["aps"] = rand_decimal(rng, allow_zero=True)
        if rng.random() < 0.7:
            t["comm"] = rand_decimal(rng, allow_zero=True)
        cur_fields(rng, "cur", "fx", t)
        if rng.random() < 0.3:
            cur_fields(rng, "ccur", "cfx", t)
        if action == "Sell" and rng.random() < 0.35:
            amt = rng.choice(["0", "0.00"]) if rng.random() < 0.2 else "-" + rand_decimal(rng)
            t["sfl"] = {"amount": amt, "force": rng.random() < 0.5}
    elif action == "RoC":
        t["aps"] = rand_decimal(rng, allow_zero=True)
        cur_fields(rng, "cur", "fx", t)
    elif action == "SfLA":
        t["shares"] = rand_decimal(rng)
        t["aps"] = rand_decimal(rng)
    else:
        form = rng.choice(["int_fwd", "int_rev", "int_rev_frac", "dec", "dec_rev"])
        if form == "int_fwd":
            post, pre = str(rng.randint(2, 20)), str(rng.randint(1, 2))
            if Fraction(post) <= Fraction(pre):
                post = "7"
            int_only = False
        elif form == "int_rev":
            post, pre = str(rng.randint(1, 3)), str(rng.randint(4, 30))
            int_only = True
        elif form == "int_rev_frac":
            post, pre = str(rng.randint(1, 3)), str(rng.randint(4, 30))
            int_only = False
        elif form == "dec":
            post, pre = rand_decimal(rng), rand_decimal(rng)
            int_only = False
            if Fraction(pre) > Fraction(post) and rng.random() < 0.5 and "." not in post + pre:
                int_only = True
        else:
            post, pre = rng.choice(["0.75", "1.0", "2.50", "0.5"]), rng.choice(["1.25", "3.0", "1", "10.000"])
            int_only = False
            if Fraction(pre) <= Fraction(post):
                pre = "100"
        # reverse_integer_only is only meaningful (and only preserved) for reverse splits
        if Fraction(pre) <= Fraction(post):
            int_only = False
        if int_only and ("." in post or "." in pre):
            int_only = False
        t["split"] = {"post": post, "pre": pre, "int_only": int_only}
        if rng.random() < 0.4 and not only_default_af:
            t["af"] = "__global__"
        elif "af" not in t and rng.random() < 0.5:
            t["af"] = "Default"
    return t


def af_id(spec_af):
    if spec_af == "__global__":
        return "__global__"
    return ref.af_norm(spec_af or "")


def expected_tx(t):
    """What the reread Tx must be, from the spec alone (value semantics)."""
    e = {"sec": t["sec"], "td": t["td"], "sd": t["sd"], "action": t["action"], "memo": (t.get("memo") or "").strip(), "af": af_id(t.get("af"))}
    for k in ("shares", "aps"):
        if k in t:
            e[k] = Fraction(t[k])
    if t["action"] in ("Buy", "Sell"):
        e["comm"] = Fraction(t.get("comm", "0"))
        e["txcur"] = (t.get("cur", "CAD"), Fraction(t["fx"]) if t.get("fx") else Fraction(1))
        e["ccur"] = (t["ccur"], Fraction(t["cfx"]) if t.get("cfx") else Fraction(1)) if t.get("ccur") else None
    if t["action"] == "RoC":
        e["txcur"] = (t.get("cur", "CAD"), Fraction(t["fx"]) if t.get("fx") else Fraction(1))
    if t["action"] == "Sell":
        e["sfl"] = (Fraction(t["sfl"]["amount"]), bool(t["sfl"]["force"])) if t.get("sfl") else None
    if t["action"] == "Split":
        s = t["split"]
        e["split"] = (Fraction(s["post"]), Fraction(s["pre"]), bool(s["int_only"]))
    return e


def norm_tx(j):
    e = {"sec": j["sec"], "td": j["td"], "sd": j["sd"], "action": j["action"], "memo": j["memo"].strip(), "af": j["af_id"]}
    for k in ("shares", "aps", "comm"):
        if k in j:
            e[k] = Fraction(j[k])
    if "txcur" in j:
        e["txcur"] = (j["txcur"]["cur"], Fraction(j["txcur"]["rate"]))
    if j["action"] in ("Buy", "Sell"):
        e["ccur"] = (j["ccur"]["cur"], Fraction(j["ccur"]["rate"])) if j.get("ccur") else None
    if j["action"] == "Sell":
        e["sfl"] = (Fraction(j["sfl"]["amount"]), bool(j["sfl"]["force"])) if j.get("sfl") else None
    if j["action"] == "Split":
        s = j["split"]
        e["split"] = (Fraction(s["post"]), Fraction(s["pre"]), bool(s["int_only"]))
    return e


def judge(case, res):
    f = []
    txs = case["txs"]
    for k in ("spec_error", "harness_error"):
        if k in res:
            return None, {"why": res[k]}
    if "panic" in res or "crash" in res or "hang" in res:
        return None, {"why": "panic"}
    for k in ("write1_error", "read_error", "write2_error"):
        if k in res:
            f.append({"what": "round trip fails: " + k, "err": res[k], "bytes1": res.get("bytes1", "")[:600]})
            return f, {}
    others_named = any(af_id(t.get("af")) not in ("default", "__global__") for t in txs)
    exp = [expected_tx(t) for t in txs]
    got = [norm_tx(j) for j in res["reread"]]
    orig = [norm_tx(j) for j in res["original"]]
    if len(got) != len(exp):
        f.append({"what": "number of transactions changed", "written": len(exp), "read": len(got)})
        return f, {}
    for i, (e, g, o) in enumerate(zip(exp, got, orig)):
        # the harness must have built what the spec says (guards the oracle itself)
        if o != e:
            # The library built something else than the spec says (its own normalisation of a name, say). The round trip
            # is then judged on the library's own terms: what was written must still come back as what was built.
            o2 = dict(o)
            if o["action"] == "Split" and o["af"] == "default" and g["af"] == "__global__" and not others_named:
                o2["af"] = "__global__"
            if g != o2:
                diff = {k: (str(o2.get(k)), str(g.get(k))) for k in set(o2) | set(g) if o2.get(k) != g.get(k)}
                f.append({"what": "transaction read back differs from the one written", "index": i, "fields": diff, "spec": txs[i],
                          "note": "compared with the transaction as the library built it"})
                return f, {}
            return None, {"why": "harness built a different Tx than the spec", "i": i, "spec": str(e), "built": str(o)}
        e2 = dict(e)
        if e["action"] == "Split" and e["af"] == "default" and g["af"] == "__global__" and not others_named:
            e2["af"] = "__global__"
        if g != e2:
            diff = {k: (str(e2.get(k)), str(g.get(k))) for k in set(e2) | set(g) if e2.get(k) != g.get(k)}
            f.append({"what": "transaction read back differs from the one written", "index": i, "fields": diff, "spec": txs[i]})
            return f, {}
        if res["reread"][i]["read_index"] != i:
            f.append({"what": "read index is not the row position", "index": i})
            return f, {}
    # "the same bytes": the statement allows two differences between the written and the re-read
    # list (memo whitespace, default-affiliate split read back as all-affiliates split); when
    # either occurred the second output legitimately differs, so the byte comparison is skipped.
    allowed_change = any((t.get("memo") or "") != (t.get("memo") or "").strip() for t in txs) or \
        any(e["action"] == "Split" and e["af"] == "default" and g["af"] == "__global__" for e, g in zip(exp, got))
    if not allowed_change and res["bytes1"] != res["bytes2"]:
        a, b = res["bytes1"], res["bytes2"]
        k = next((i for i in range(min(len(a), len(b))) if a[i] != b[i]), min(len(a), len(b)))
        f.append({"what": "writing the re-read list does not yield the same bytes", "at": k, "first": a[max(0, k - 40):k + 40], "second": b[max(0, k - 40):k + 40]})
        return f, {}
    # independent parse of bytes1 with Python's csv module
    rows = list(csv.reader(io.StringIO(res["bytes1"], newline="")))
    hdr = rows[0]
    body = rows[1:]
    if len(body) != len(txs):
        f.append({"what": "independent CSV parse sees a different number of rows", "rows": len(body), "txs": len(txs)})
        return f, {}
    col = {h: i for i, h in enumerate(hdr)}
    for i, (t, r) in enumerate(zip(txs, body)):
        def cell(name):
            return r[col[name]] if name in col else ""
        e = exp[i]
        checks = [("security", t["sec"]), ("trade date", t["td"]), ("settlement date", t["sd"]), ("action", t["action"])]
        for name, want in checks:
            if cell(name) != want:
                f.append({"what": "cell differs from the transaction (independent parse)", "col": name, "cell": cell(name), "want": want, "index": i})
                return f, {}
        nums = [("shares", e.get("shares")), ("amount/share", e.get("aps"))]
        if t["action"] in ("Buy", "Sell"):
            nums.append(("commission", e["comm"]))
            if e["txcur"][0] != "CAD":
                nums.append(("exchange rate", e["txcur"][1]))
            if e["ccur"] and e["ccur"][0] != "CAD":
                nums.append(("commission exchange rate", e["ccur"][1]))
        if t["action"] == "RoC" and e["txcur"][0] != "CAD":
            nums.append(("exchange rate", e["txcur"][1]))
        for name, want in nums:
            c = cell(name)
            if want is None:
                if c.strip() != "":
                    f.append({"what": "cell present for a field the transaction does not have", "col": name, "cell": c, "index": i})
                    return f, {}
                continue
            try:
                v = Fraction(c)
            except (ValueError, ZeroDivisionError):
                f.append({"what": "numeric cell not parseable (independent parse)", "col": name, "cell": c, "index": i})
                return f, {}
            if v != want:
                f.append({"what": "numeric cell differs in value from the transaction (independent parse)", "col": name, "cell": c, "want": str(want), "index": i})
                return f, {}
        if t["action"] in ("Buy", "Sell", "RoC") and cell("currency") != e["txcur"][0]:
            f.append({"what": "currency cell differs", "cell": cell("currency"), "want": e["txcur"][0], "index": i})
            return f, {}
        if t["action"] in ("Buy", "Sell"):
            wantc = e["ccur"][0] if e["ccur"] else ""
            if cell("commission currency") != wantc:
                f.append({"what": "commission currency folded into or dropped from its column", "cell": cell("commission currency"), "want": wantc, "index": i})
                return f, {}
        if t["action"] == "Sell":
            c = cell("superficial loss")
            if e["sfl"] is None:
                if c != "":
                    f.append({"what": "superficial loss cell invented", "cell": c, "index": i})
                    return f, {}
            else:
                if c.endswith("!") != e["sfl"][1] or Fraction(c.rstrip("!")) != e["sfl"][0]:
                    f.append({"what": "superficial loss cell differs (value or force marker)", "cell": c, "want": str(e["sfl"]), "index": i})
                    return f, {}
        if t["action"] == "Split":
            c = cell("split ratio")
            a, b = c.lower().split("-for-")
            int_only = (Fraction(b) > Fraction(a)) and "." not in a and "." not in b
            if (Fraction(a), Fraction(b), int_only) != e["split"]:
                f.append({"what": "split ratio cell differs (value or whether fractional results are allowed)", "cell": c, "want": str(e["split"]), "index": i})
                return f, {}
        if cell("memo").strip() != e["memo"]:
            f.append({"what": "memo cell differs", "cell": cell("memo")[:80], "want": e["memo"][:80], "index": i})
            return f, {}
        got_af = "__global__" if cell("affiliate") == "__global__" else ref.af_norm(cell("affiliate"))
        want_af = e["af"]
        if "affiliate" not in col:
            # column omitted: only legitimate when every transaction belongs to the default affiliate
            if want_af not in ("default",):
                f.append({"what": "affiliate column omitted although a transaction names another affiliate", "want": want_af, "index": i})
                return f, {}
        elif got_af != want_af:
            f.append({"what": "affiliate cell differs", "cell": cell("affiliate"), "want": want_af, "index": i})
            return f, {}
    info = {"partly_used_optional": False, "big_scale": False, "quoting_memo": False}
    for name in ("exchange rate", "commission currency", "commission exchange rate", "superficial loss", "split ratio", "affiliate"):
        if name in col and any(r[col[name]] == "" for r in body) and any(r[col[name]] != "" for r in body):
            info["partly_used_optional"] = True
    for t in txs:
        for k in ("shares", "aps", "comm", "fx", "cfx"):
            if t.get(k) and "." in t[k] and len(t[k].split(".")[1].rstrip("0")) > 10:
                info["big_scale"] = True
        if any(ch in (t.get("memo") or "") for ch in ',"\n\r'):
            info["quoting_memo"] = True
    return f, info


def run(tier):
    seed = common.seed()
    common.build()
    V = Verdict(PROP, tier)
    V.rule = ("generated valid transaction lists (every action; decimals with scale 0-28 and up to 28 significant digits, trailing zeros; memos with commas, "
              "quotes, CR/LF, non-ASCII, leading =/-/+; 18 affiliate spellings incl. registered and the all-affiliates split; forced/unforced/zero superficial "
              "losses; integer, decimal, forward and reverse split ratios with both settings of reverse_integer_only; rate columns partly used) built through the "
              "public types, written, read back, written again; plus an independent parse of the written bytes with Python's csv module; non-trivial = list "
              "uses an optional column only partly, or a decimal with more than 10 places, or a memo that needs CSV quoting")
    n = {"quick": 4000, "thorough": 200000}[tier]
    cases = []
    for i in range(n):
        rng = common.rng_for(seed, PROP, i)
        only_default = rng.random() < 0.25
        k = rng.choice([1, 1, 2, 3, 5, 8, 15])
        cases.append({"id": common.case_id(seed, PROP, i), "txs": [gen_tx(rng, j, only_default) for j in range(k)]})
    res = common.run_harness("csvrt", cases, tag="c11")
    for c in cases:
        V.count()
        r = res.get(c["id"], {"crash": 1})
        f, info = judge(c, r)
        if f is None:
            V.unjudged += 1
            V.bump("unjudged_" + str(info.get("why"))[:40])
            continue
        V.bump("transactions_round_tripped", len(c["txs"]))
        if info.get("partly_used_optional") or info.get("big_scale") or info.get("quoting_memo"):
            V.nontriv(c["id"])
        if not f:
            V.sample({"txs": c["txs"][:2], "bytes": r["bytes1"][:400]}, cap=2)
        for x in f[:1]:
            # input feature used by a known-finding signature: a whole-number split operand of 28 or more digits
            # (the writer marks "fractional results allowed" by appending ".0", which then no longer fits 96 bits)
            big = any(t.get("split") and any("." not in str(t["split"][k]) and len(str(t["split"][k]).lstrip("0")) >= 28 for k in ("post", "pre"))
                      for t in c["txs"])
            V.violation(json.dumps(x)[:600], {"kind": "txlist", "prop": PROP, "txs": c["txs"], "finding": x},
                        {"what": x["what"], "err": str(x.get("err", "")), "split_operand_28_digits": big})
    return V.finish(floor_eval=100, floor_nontrivial=10, floors={"transactions_round_tripped": 2000})


def replay(rec):
    c = rec["case"]
    common.build()
    case = {"id": "r", "txs": c["txs"]}
    r = common.run_harness("csvrt", [case], tag="c11r", nproc=1)["r"]
    f, info = judge(case, r)
    print(r.get("bytes1", "")[:2000])
    if f:
        print("replay finding:", json.dumps(f)[:1000])
        print("VIOLATION property=%s replay=%s" % (PROP, sys.argv[2]))
        return 1
    print("replay: no finding reproduced" if f is not None else "replay: could not be judged %s" % info)
    return 0 if f is not None else 2


if __name__ == "__main__":
    sys.exit(common.main_dispatch(PROP, run, replay))
