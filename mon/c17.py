"""C17: total-cost tables show the true maximum cost held (reference model over the same run's rows)."""
import csv
import datetime
import json
import multiprocessing
import os
import sys
from fractions import Fraction

sys.path.insert(0, os.path.dirname(os.path.abspath(__file__)))
import common
import gen
import ref
from common import Verdict
from ledger import history_to_case, mkrow

PROP = "C17"
TOL = Fraction(1, 10 ** 15)


def profile(rng):
    afs = rng.choice([["Default"], ["Default", "Spouse"], ["Default", "Default (R)"], ["Default", "Spouse", "Default (R)"]])
    return gen.Knobs(affiliates=afs, n_secs=(2, 5), n_rows=(6, 60), opening=0.3,
                     offsets=[0, 0, 0, 0, 1, 2, 5, 10, 30, 60, 200, 400, 800], p_full_liquidation=0.35,
                     td_lag=[0, 0, 2], weights={"Buy": 5, "Sell": 5, "RoC": 1, "SfLA": 0.2, "Split": 0.4},
                     p_loss_bias=0.5)


def same_day_family(rng, n):
    """Securities bought and fully sold on one day, next to others that are merely held."""
    out = []
    for i in range(n):
        d0 = datetime.date(rng.randint(2010, 2020), rng.randint(1, 12), rng.randint(1, 28))
        rows = []
        secs = ["HOLD", "FLIP", "THIRD"][:rng.randint(2, 3)]
        rows.append(mkrow("HOLD", d0.isoformat(), "Buy", "", shares="10", aps=gen.rand_dec(rng, 1, 100, 2), cur="CAD"))
        day = d0
        for k in range(rng.randint(2, 6)):
            day = day + datetime.timedelta(days=rng.choice([0, 1, 7, 40, 400]))
            q = str(rng.randint(1, 50))
            p = gen.rand_dec(rng, 1, 300, 2)
            rows.append(mkrow("FLIP", day.isoformat(), "Buy", "", shares=q, aps=p, cur="CAD"))
            if rng.random() < 0.8:
                rows.append(mkrow("FLIP", day.isoformat(), "Sell", "", shares=q, aps=gen.rand_dec(rng, 1, 300, 2), cur="CAD"))
            if "THIRD" in secs and rng.random() < 0.5:
                rows.append(mkrow("THIRD", (day + datetime.timedelta(days=rng.choice([0, 3]))).isoformat(), "Buy",
                                  rng.choice(["", "Spouse"]), shares="3", aps="7.77", cur="CAD"))
        day = day + datetime.timedelta(days=rng.choice([1, 30, 500]))
        rows.append(mkrow("HOLD", day.isoformat(), "Sell", "", shares="4", aps="50", cur="CAD"))
        init = {"HOLD": ("5", "123.45")} if rng.random() < 0.3 else {}
        out.append(("same_day #%d" % i, {"rows": rows, "init": init, "features": ["same_day_family"]}))
    return out


def expected_costs(h, res):
    """-> (days: {date: {sec: cost}}, secs sorted, notes multiset, nontrivial flag) from the per-security rows."""
    tables = res["tables"]
    per_day = {}     # date -> sec -> [costs in row order]
    notes = []
    secs = set()
    for sec, t in tables.items():
        col = {x: i for i, x in enumerate(t["header"])}
        for r in t["rows"]:
            af = ref.af_norm(r[col["Affiliate"]])
            sd = r[col["Settl. Date"]]
            if ref.is_reg(af):
                notes.append("%s (%s) ignored transaction from registered affiliate" % (sd, sec))
                continue
            if not af.startswith("default"):
                notes.append("%s (%s) ignored transaction from non-default affiliate %s" % (sd, sec, r[col["Affiliate"]]))
                continue
            secs.add(sec)
            per_day.setdefault(sd, {}).setdefault(sec, []).append(ref.money(r[col["New ACB"]]))
    secs = sorted(secs)
    days = {}
    last = {}
    nontrivial = False
    for d in sorted(per_day):
        row = {}
        for s in secs:
            if s in per_day[d]:
                costs = per_day[d][s]
                row[s] = max(costs)
                last[s] = costs[-1]
                if max(costs) != costs[-1]:
                    nontrivial = True
            elif s in last:
                row[s] = last[s]
            else:
                init = h.get("init", {}).get(s)
                row[s] = Fraction(init[1]) if init else Fraction(0)
        days[d] = row
    return days, secs, notes, nontrivial


def judge(h, res):
    out = {"unjudged": False, "findings": [], "nontrivial": False, "counts": {}}
    if "panic" in res or "crash" in res or "hang" in res or not res.get("ok"):
        out["unjudged"] = True
        return out
    if any(t["errors"] for t in res["tables"].values()):
        out["unjudged"] = True     # the statement is about inputs that process without error
        return out
    f = out["findings"]
    try:
        days, secs, notes, nt = expected_costs(h, res)
        ct = res["costs"]["total"]
        cy = res["costs"]["yearly"]
        if ct["header"] != ["Date", "Total"] + secs:
            f.append({"what": "total-costs header does not list the default affiliate's securities", "header": ct["header"], "expected": secs})
            return out
        got_days = [r[0] for r in ct["rows"]]
        if got_days != sorted(days):
            f.append({"what": "dated rows differ from the default affiliate's settlement days", "got": got_days[:10], "expected": sorted(days)[:10]})
            return out
        totals = {}
        for r in ct["rows"]:
            d = r[0]
            out["counts"]["day_rows"] = out["counts"].get("day_rows", 0) + 1
            tot = Fraction(0)
            for s, cell in zip(secs, r[2:]):
                v = ref.money(cell)
                if abs(v - days[d][s]) > TOL:
                    f.append({"what": "per-security figure is not the day's maximum / carried-forward cost base",
                              "date": d, "sec": s, "tool": str(v), "expected": str(days[d][s])})
                    return out
                tot += days[d][s]
            if abs(ref.money(r[1]) - tot) > TOL:
                f.append({"what": "row total is not the sum of the securities' figures", "date": d, "tool": r[1], "expected": str(tot)})
                return out
            totals[d] = tot
        years = sorted({d[:4] for d in days})
        if [r[0] for r in cy["rows"]] != years:
            f.append({"what": "yearly table does not have one row per year with a transaction", "got": [r[0] for r in cy["rows"]], "expected": years})
            return out
        for r in cy["rows"]:
            y, d = r[0], r[1]
            out["counts"]["year_rows"] = out["counts"].get("year_rows", 0) + 1
            if d[:4] != y or d not in days:
                f.append({"what": "yearly row names a day that is not a settlement day of that year", "year": y, "day": d})
                return out
            best = max(totals[x] for x in days if x[:4] == y)
            if abs(totals[d] - best) > TOL:
                f.append({"what": "yearly row is not a day with the year's highest total", "year": y, "day": d,
                          "its_total": str(totals[d]), "highest": str(best)})
                return out
            if abs(ref.money(r[2]) - totals[d]) > TOL or any(abs(ref.money(c) - days[d][s]) > TOL for s, c in zip(secs, r[3:])):
                f.append({"what": "yearly row does not carry that day's figures", "year": y, "day": d})
                return out
        for tname, t in (("total", ct), ("yearly", cy)):
            if sorted(t["notes"]) != sorted(notes):
                f.append({"what": "ignored-transaction notes do not list each other-affiliate row once", "table": tname,
                          "got": sorted(t["notes"])[:6], "expected": sorted(notes)[:6]})
                return out
        out["nontrivial"] = nt and len(secs) >= 2
    except (ValueError, KeyError) as e:
        f.append({"what": "unparsable costs table", "err": repr(e)})
    return out


def _worker(shard):
    cases = [history_to_case(cid, h, costs=True) for cid, name, h in shard]
    res = common.run_harness("app", cases, tag="c17", nproc=1)
    out = []
    for cid, name, h in shard:
        j = judge(h, res.get(cid, {"crash": 1}))
        j["cid"] = cid
        j["name"] = name
        if j["findings"]:
            j["history"] = h
        elif len(out) < 1 and not j["unjudged"]:
            j["sample"] = {"csv": gen.rows_to_csv(h["rows"], gen.used_cols(h["rows"]))[:800], "init": gen.init_args(h.get("init", {})),
                           "total_costs_rows": res[cid]["costs"]["total"]["rows"][:5]}
        out.append(j)
    return out


def cli_check(V, pop, k):
    """total-costs.csv and yearly-max-costs.csv of the real binary carry the render model's cells."""
    wd = common.workdir("c17cli")
    try:
        for cid, name, h in pop[:k]:
            model = common.run_harness("app", [history_to_case("m", h, costs=True)], tag="c17m", nproc=1)["m"]
            if not model.get("ok"):
                continue
            inp = os.path.join(wd, cid + ".csv")
            with open(inp, "w") as f:
                f.write(gen.rows_to_csv(h["rows"], gen.used_cols(h["rows"])))
            od = os.path.join(wd, cid + "-out")
            args = [inp, "-d", od, "--print-full-values", "--total-costs"]
            for s in gen.init_args(h.get("init", {})):
                args += ["-b", s]
            common.prefill_output_dir(od, [inp])       # the directory already holds a longer, older report
            r = common.run_cli("acb", args, home=wd)
            if r["rc"] != 0:
                V.violation("acb --total-costs -d failed where the library succeeded [%s]" % name,
                            {"kind": "history", "prop": PROP, "history": h}, {"what": "binary failed"})
                continue
            for fn, t in (("total-costs.csv", model["costs"]["total"]), ("yearly-max-costs.csv", model["costs"]["yearly"])):
                p = os.path.join(od, fn)
                got = list(csv.reader(open(p, newline=""))) if os.path.exists(p) else None
                want = [t["header"]] + t["rows"] + [[n] + [""] * (len(t["header"]) - 1) for n in t["notes"]]
                V.bump("binary_cost_files")
                if got != want:
                    V.violation("%s written by the binary differs from the render model [%s]" % (fn, name),
                                {"kind": "history", "prop": PROP, "history": h}, {"what": "binary costs file differs"})
    finally:
        common.cleanup(wd)


def run(tier):
    seed = common.seed()
    common.build(bins=True)
    V = Verdict(PROP, tier)
    V.rule = ("2-5 security histories with several settlements per day, full same-day liquidations, long gaps, years without rows, opening positions and "
              "other/registered affiliates + a family that buys and fully sells a security on one day next to held ones; the expectation is derived from "
              "the New ACB of the same run's rows; non-trivial = >=2 securities and a day on which a security's maximum differs from its closing cost")
    n = {"quick": 2000, "thorough": 80000}[tier]
    pop = []
    rng = common.rng_for(seed, PROP, "sd")
    for name, hh in same_day_family(rng, 300 if tier == "quick" else 10000):
        pop.append((common.case_id(seed, PROP, "sd", len(pop)), name, hh))
    for i in range(n):
        rng = common.rng_for(seed, PROP, i)
        hh = gen.HistoryGen(rng, profile(rng)).gen()
        pop.append((common.case_id(seed, PROP, i), "random #%d" % i, hh))
    nsh = common.NPROC * 4
    shards = [s for s in (pop[i::nsh] for i in range(nsh)) if s]
    with multiprocessing.Pool(common.NPROC) as pool:
        parts = pool.map(_worker, shards)
    for part in parts:
        for j in part:
            V.count()
            if j["unjudged"]:
                V.unjudged += 1
                continue
            for k, v in j["counts"].items():
                V.bump("judged_" + k, v)
            if j["nontrivial"]:
                V.nontriv(j["cid"])
            if "sample" in j:
                V.sample(j["sample"], cap=2)
            for f in j["findings"][:1]:
                V.violation("%s [%s]" % (json.dumps(f)[:400], j["name"]),
                            {"kind": "history", "prop": PROP, "history": j["history"], "finding": f}, {"what": f["what"]})
    cli_check(V, pop, 10 if tier == "quick" else 100)
    return V.finish(floor_eval=100, floor_nontrivial=10, floors={"judged_day_rows": 2000, "judged_year_rows": 300, "binary_cost_files": 6})


def replay(rec):
    h = rec["case"]["history"]
    common.build()
    res = common.run_harness("app", [history_to_case("r", h, costs=True)], tag="c17r", nproc=1)["r"]
    j = judge(h, res)
    print(gen.rows_to_csv(h["rows"], gen.used_cols(h["rows"])))
    if j["findings"]:
        print("replay finding:", json.dumps(j["findings"])[:800])
        print("VIOLATION property=%s replay=%s" % (PROP, sys.argv[2]))
        return 1
    print("replay: no finding reproduced")
    return 0 if not j["unjudged"] else 2


if __name__ == "__main__":
    sys.exit(common.main_dispatch(PROP, run, replay))
