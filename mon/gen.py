"""State-aware generator of transaction histories (shared by C01-C10, C15-C17).

A history is a list of row dicts; numbers are decimal-literal strings so that what the tool
parses and what the reference model computes with are the same values exactly.
Row keys: sec, td, sd, action (Buy/Sell/RoC/SfLA/Split), shares, aps, comm, cur, fx, ccur, cfx,
sfl (string incl. optional '!'), split ('N-for-M'), af (affiliate spelling or ''), memo.
"""
import datetime
from fractions import Fraction

COLS = ["security", "trade date", "settlement date", "action", "shares", "amount/share",
        "commission", "currency", "exchange rate", "commission currency",
        "commission exchange rate", "superficial loss", "split ratio", "affiliate", "memo"]
KEYS = ["sec", "td", "sd", "action", "shares", "aps", "comm", "cur", "fx", "ccur", "cfx",
        "sfl", "split", "af", "memo"]

AFFILIATES = ["Default", "Default (R)", "Spouse", "Spouse (R)", "Kid"]
OFFSETS = [0, 0, 0, 1, 1, 2, 3, 5, 7, 10, 14, 20, 27, 28, 29, 30, 31, 32, 33, 45, 60, 100, 200, 400]


def F(s):
    return Fraction(s)


def d2s(d):
    return d.isoformat()


def s2d(s):
    return datetime.date.fromisoformat(s)


def dec_str(fr, max_dp=10):
    """Render a Fraction that is an exact decimal with <= max_dp places."""
    scaled = fr * (10 ** max_dp)
    assert scaled.denominator == 1, fr
    n = scaled.numerator
    neg = n < 0
    n = abs(n)
    s = str(n).rjust(max_dp + 1, "0")
    ip, fp = s[:-max_dp], s[-max_dp:]
    fp = fp.rstrip("0")
    out = ip + ("." + fp if fp else "")
    return ("-" if neg else "") + out


def floor_dec(fr, dp=10):
    """Largest decimal with dp places that is <= fr (fr >= 0), as a literal."""
    scale = 10 ** dp
    n = (fr.numerator * scale) // fr.denominator
    return dec_str(Fraction(n, scale), dp)


def rand_dec(rng, lo, hi, dp):
    """Random decimal literal in [lo, hi] with exactly up to dp decimals (as string)."""
    scale = 10 ** dp
    n = rng.randint(int(lo * scale), int(hi * scale))
    return dec_str(Fraction(n, scale), max(dp, 0)) if dp > 0 else str(n)


def csv_escape(v):
    if any(c in v for c in [",", '"', "\n", "\r"]):
        return '"' + v.replace('"', '""') + '"'
    return v


def rows_to_csv(rows, cols=None, header_style=None):
    cols = cols or COLS
    key_for = dict(zip(COLS, KEYS))
    hdr = cols if header_style is None else [header_style(c) for c in cols]
    lines = [",".join(csv_escape(h) for h in hdr)]
    for r in rows:
        lines.append(",".join(csv_escape(str(r.get(key_for[c], "") or "")) for c in cols))
    return "\n".join(lines) + "\n"


def used_cols(rows):
    key_for = dict(zip(COLS, KEYS))
    must = {"security", "trade date", "settlement date", "action", "shares", "amount/share"}
    return [c for c in COLS if c in must or any(r.get(key_for[c]) for r in rows)]


class Knobs:
    def __init__(self, **kw):
        self.n_secs = (1, 2)
        self.affiliates = ["Default"]
        self.n_rows = (5, 40)
        self.weights = {"Buy": 5, "Sell": 5, "RoC": 1, "SfLA": 0.3, "Split": 0.7}
        self.p_invalid = 0.0          # chance per row of deliberately breaking validity
        self.currencies = ["CAD", "CAD", "USD", "EUR"]
        self.p_comm = 0.6
        self.p_comm_cur = 0.15        # separate commission currency
        self.max_dp_shares = 4
        self.p_frac_shares = 0.4
        self.p_full_liquidation = 0.15
        self.p_global_split = 0.6     # else one row per affiliate
        self.start_year = (2012, 2022)
        self.p_user_sfl = 0.0
        self.p_loss_bias = 0.5        # bias sale price below cost
        self.td_lag = [0, 0, 1, 2, 2, 2, 3, 5]
        self.price_range = (Fraction(1, 100), 500)
        self.shares_range = (1, 500)
        self.split_ratios = ["2-for-1", "3-for-1", "1-for-2", "1-for-3", "3-for-2", "5-for-1",
                             "1-for-10", "1.0-for-3.0", "2.5-for-1", "1.0-for-2.0", "7-for-3",
                             "10-for-1", "1.0-for-7.0"]
        self.offsets = OFFSETS
        self.opening = 0.0            # chance of an opening position per security
        self.shuffle_file_order = 0.3
        for k, v in kw.items():
            assert hasattr(self, k), k
            setattr(self, k, v)


def split_factor(ratio):
    a, b = ratio.lower().split("-for-")
    return Fraction(a) / Fraction(b)


def split_int_only(ratio):
    a, b = ratio.lower().split("-for-")
    rev = Fraction(b) > Fraction(a)
    return rev and "." not in a and "." not in b


class HistoryGen:
    def __init__(self, rng, knobs):
        self.rng = rng
        self.k = knobs

    def _price(self):
        rng = self.rng
        lo, hi = self.k.price_range
        dp = rng.choice([0, 1, 2, 2, 2, 3, 4, 6])
        style = rng.random()
        if style < 0.15:
            return rand_dec(rng, lo, min(hi, 2), max(dp, 2))
        return rand_dec(rng, lo, hi, dp)

    def _shares(self):
        rng = self.rng
        lo, hi = self.k.shares_range
        if rng.random() < self.k.p_frac_shares:
            dp = rng.randint(1, self.k.max_dp_shares)
            return rand_dec(rng, Fraction(1, 10 ** dp), hi, dp)
        # small counts often: 3, 7, 9, 11 give non-terminating per-share costs
        if rng.random() < 0.4:
            return str(rng.choice([1, 2, 3, 3, 6, 7, 7, 9, 11, 13, 17, 21, 27, 33]))
        return str(rng.randint(lo, hi))

    def _rate(self, cur):
        rng = self.rng
        if cur == "USD":
            return rand_dec(rng, Fraction(95, 100), Fraction(145, 100), rng.choice([2, 4, 4, 6]))
        return rand_dec(rng, Fraction(5, 10), Fraction(2), rng.choice([2, 4, 5]))

    def gen(self):
        rng, k = self.rng, self.k
        n_secs = rng.randint(*k.n_secs)
        secs = rng.sample(["FOO", "BAR", "XYZ", "QQQ", "VTI", "ABC.TO", "Z"], n_secs)
        n_rows = rng.randint(*k.n_rows)
        year = rng.randint(*k.start_year)
        date = datetime.date(year, rng.randint(1, 12), rng.randint(1, 28))
        hold = {}   # (sec, af) -> Fraction shares
        acb = {}    # (sec, af) -> Fraction (approximate lower bound, ignores SfLA)
        last_price = {}
        cur_of = {s: rng.choice(k.currencies) for s in secs}
        rows = []
        init = {}
        feats = set()
        for s in secs:
            if rng.random() < k.opening:
                n = self._shares()
                c = rand_dec(rng, 0, 20000, 2)
                if F(n) == 0:
                    c = "0"
                init[s] = (n, c)
                hold[(s, "Default")] = F(n)
                acb[(s, "Default")] = F(c)
                feats.add("opening")
        split_days = {}  # sec -> list of (date, kind)
        i = 0
        while i < n_rows:
            date = date + datetime.timedelta(days=rng.choice(k.offsets))
            if date.year > 2090:
                break
            sec = rng.choice(secs)
            af = rng.choice(k.affiliates)
            key = (sec, af)
            held = hold.get(key, Fraction(0))
            acts = dict(k.weights)
            invalid = rng.random() < k.p_invalid
            if held == 0 and not invalid:
                acts["Sell"] = 0
                acts["RoC"] = acts.get("RoC", 0) * 0.1
            if "(R)" in af and not invalid:
                acts["RoC"] = 0
                acts["SfLA"] = 0
            act = rng.choices(list(acts.keys()), weights=list(acts.values()))[0]
            lag = rng.choice(k.td_lag)
            td = date - datetime.timedelta(days=lag)
            row = {"sec": sec, "td": d2s(td), "sd": d2s(date), "action": act, "af": af,
                   "memo": ""}
            if af == "Default" and rng.random() < 0.5:
                row["af"] = ""
            registered = "(R)" in af
            cur = cur_of[sec] if rng.random() < 0.9 else rng.choice(k.currencies)

            def put_currency(r, cur):
                r["cur"] = cur
                if cur != "CAD":
                    r["fx"] = self._rate(cur)
                elif rng.random() < 0.1:
                    r["fx"] = rng.choice(["1", "1.0", "1.00"])

            if act == "Buy":
                row["shares"] = self._shares()
                row["aps"] = self._price() if rng.random() > 0.03 else "0"
                put_currency(row, cur)
                self._commission(row, cur)
                hold[key] = held + F(row["shares"])
                if not registered:
                    acb[key] = acb.get(key, Fraction(0)) + F(row["shares"]) * F(row["aps"]) * F(row.get("fx") or 1)
                last_price[sec] = row["aps"]
            elif act == "Sell":
                if invalid:
                    n = held + F(self._shares())
                    row["shares"] = floor_dec(n, 10)
                    feats.add("inv_oversell")
                elif held > 0 and rng.random() < k.p_full_liquidation:
                    row["shares"] = floor_dec(held, 10)
                    if F(row["shares"]) == held:
                        feats.add("full_liquidation")
                    if F(row["shares"]) == 0:
                        row["shares"] = "1"
                else:
                    if held <= 0:
                        n = F(self._shares())
                    else:
                        frac = Fraction(rng.randint(1, 99), 100)
                        n = held * frac
                        # round to a representable decimal
                        dp = rng.choice([0, 0, 1, 2, 4])
                        n = Fraction(int(n * 10 ** dp), 10 ** dp)
                        if n <= 0:
                            n = min(held, Fraction(1, 10 ** dp)) if dp else held
                        if n > held:
                            n = held
                    row["shares"] = floor_dec(n, 10)
                    if F(row["shares"]) == 0:
                        row["shares"] = "1"
                # price relative to cost
                base = F(last_price.get(sec, "10"))
                if rng.random() < k.p_loss_bias:
                    mult = Fraction(rng.randint(30, 99), 100)
                else:
                    mult = Fraction(rng.randint(101, 250), 100)
                p = base * mult
                dp = rng.choice([2, 2, 3, 4])
                p = Fraction(int(p * 10 ** dp), 10 ** dp)
                row["aps"] = dec_str(p, dp) if rng.random() > 0.02 else "0"
                put_currency(row, cur)
                self._commission(row, cur)
                sold = F(row["shares"])
                if sold <= held and held > 0:
                    if not registered and key in acb:
                        acb[key] = acb[key] * (held - sold) / held
                    hold[key] = held - sold
                if rng.random() < k.p_user_sfl and not registered:
                    feats.add("user_sfl_marker")
                    row["_want_user_sfl"] = True
            elif act == "RoC":
                a = acb.get(key, Fraction(0))
                if invalid and held > 0:
                    per = (a / held) + F(self._price())
                    per = Fraction(int(per * 100) + 1, 100)
                    row["aps"] = dec_str(per, 2)
                    feats.add("inv_roc")
                else:
                    if held > 0 and a > 0:
                        per = (a / held) * Fraction(rng.randint(1, 40), 100)
                        per = Fraction(int(per * 10000), 10000)
                    else:
                        per = Fraction(rng.randint(0, 100), 100)
                    row["aps"] = dec_str(per, 4)
                fxr = None
                if cur != "CAD" and rng.random() < 0.5:
                    # keep RoC modest when converting
                    row["cur"] = cur
                    fxr = self._rate(cur)
                    row["fx"] = fxr
                    per2 = F(row["aps"]) / F(fxr)
                    per2 = Fraction(int(per2 * 10000), 10000)
                    if not invalid:
                        row["aps"] = dec_str(per2, 4)
                if registered:
                    feats.add("inv_roc_registered")
                if held > 0 and key in acb:
                    acb[key] = max(Fraction(0), acb[key] - F(row["aps"]) * F(fxr or 1) * held)
            elif act == "SfLA":
                row["shares"] = rng.choice(["1", "1", self._shares()])
                row["aps"] = rand_dec(rng, Fraction(1, 100), 50, 2)
                if registered:
                    feats.add("inv_sfla_registered")
            elif act == "Split":
                ratio = rng.choice(k.split_ratios)
                if invalid:
                    ratio = rng.choice(["1-for-2", "1-for-3", "2-for-3", "1-for-7"])
                # avoid global next to per-affiliate splits (deliberate load-stage guard)
                prev = split_days.get(sec, [])
                glob = rng.random() < k.p_global_split
                too_close = any(abs((td - d).days) <= 2 and kind != glob for d, kind in prev)
                if too_close:
                    continue
                f = split_factor(ratio)
                if split_int_only(ratio) and not invalid:
                    # choose only if every affected balance stays integral, else use decimal form
                    affected = [a for (s, a) in hold if s == sec] if glob else [af]
                    if any((hold.get((sec, a), 0) * f).denominator != 1 for a in affected):
                        a_, b_ = ratio.split("-for-")
                        ratio = "%s.0-for-%s.0" % (a_, b_)
                row["split"] = ratio
                split_days.setdefault(sec, []).append((td, glob))
                if glob:
                    row["af"] = ""
                    for (s, a) in list(hold.keys()):
                        if s == sec:
                            hold[(s, a)] = hold[(s, a)] * f
                    feats.add("global_split")
                else:
                    # one row per affiliate holding this security (incl. the chosen one)
                    afs = sorted({a for (s, a) in hold if s == sec} | {af})
                    if rng.random() < 0.2:
                        afs = [af]   # deliberately only one affiliate splits
                        feats.add("partial_split")
                    rng.shuffle(afs)
                    for a in afs:
                        r2 = dict(row)
                        r2["af"] = a
                        rows.append(r2)
                        hold[(sec, a)] = hold.get((sec, a), Fraction(0)) * f
                    feats.add("per_af_split")
                    if sec in last_price:
                        last_price[sec] = dec_str(Fraction(int(F(last_price[sec]) / f * 10000), 10000), 4)
                    i += 1
                    continue
                if sec in last_price:
                    last_price[sec] = dec_str(Fraction(int(F(last_price[sec]) / f * 10000), 10000), 4)
            rows.append(row)
            i += 1
        # file order: chronological, optionally perturbed admissibly
        if rng.random() < k.shuffle_file_order:
            rows = admissible_shuffle(rng, rows)
            feats.add("shuffled")
        for r in rows:
            r.pop("_want_user_sfl", None)
        return {"rows": rows, "init": init, "features": sorted(feats)}

    def _commission(self, row, cur):
        rng, k = self.rng, self.k
        if rng.random() < k.p_comm:
            row["comm"] = rand_dec(rng, 0, 30, 2)
            if rng.random() < k.p_comm_cur:
                cc = rng.choice(["CAD", "USD", "EUR", "GBP"])
                row["ccur"] = cc
                if cc != "CAD":
                    row["cfx"] = self._rate(cc)


def admissible_shuffle(rng, rows):
    """Random permutation keeping the relative order of rows with the same (sec, sd)."""
    keyed = {}
    for r in rows:
        keyed.setdefault((r["sec"], r["sd"]), []).append(r)
    slots = [(r["sec"], r["sd"]) for r in rows]
    rng.shuffle(slots)
    out = []
    cursor = {k: 0 for k in keyed}
    for s in slots:
        out.append(keyed[s][cursor[s]])
        cursor[s] += 1
    return out


def init_args(init):
    return ["%s:%s:%s" % (s, n, c) for s, (n, c) in sorted(init.items())]
