"""C13: the exchange-rate cache never changes an answer (history monitor over runs x look-ups)."""
import datetime
import json
import os
import shutil
import sys
from fractions import Fraction

sys.path.insert(0, os.path.dirname(os.path.abspath(__file__)))
import common
import ratesref as rr
from common import Verdict
from c12 import judge_lookup, remote_spec

PROP = "C13"


def gen_history(rng, idx, cache_kind):
    y0 = rng.choice([2014, 2016, 2017, 2019, 2022])
    span = rng.choice([0, 1, 1, 2])
    cal = rr.gen_calendar(rng, y0 - 1, y0 + span + 1)
    nruns = rng.randint(1, 8)
    today = datetime.date(y0, rng.randint(1, 12), rng.randint(1, 28))
    runs = []
    first_today = today
    for k in range(nruns):
        if k:
            today = today + datetime.timedelta(days=rng.choice([0, 1, 1, 2, 3, 7, 10, 30, 100, 366, 400]))
        see_today = rng.random() < 0.3
        # published data never disappears: what an earlier run could see, later runs see too
        horizon = today + datetime.timedelta(days=1 if see_today else 0)
        if runs and runs[-1]["horizon"] > horizon:
            horizon = runs[-1]["horizon"]
        vis = cal.restricted(horizon)
        force = rng.random() < 0.15
        nl = rng.randint(1, 12)
        dates = []
        style = rng.choice(["old_then_new", "random", "recent", "ascending", "weekend_first", "new_year"])
        for j in range(nl):
            if style == "old_then_new":
                if j == 0:
                    d = first_today - datetime.timedelta(days=rng.randint(5, 60))
                else:
                    d = today - datetime.timedelta(days=rng.choice([1, 1, 2, 3, 4, 5, 8]))
            elif style == "recent":
                d = today - datetime.timedelta(days=rng.choice([0, 1, 1, 2, 3, 4, 5, 6, 7, 9, -1, -2]))
            elif style == "ascending":
                d = first_today - datetime.timedelta(days=40) + datetime.timedelta(days=j * rng.choice([1, 3, 11]))
            elif style == "weekend_first":
                base = today - datetime.timedelta(days=rng.randint(1, 20))
                while j == 0 and base.weekday() < 5:
                    base -= datetime.timedelta(days=1)
                d = base
            elif style == "new_year":
                d = datetime.date(today.year, 1, 1) + datetime.timedelta(days=rng.randint(-6, 8))
            else:
                d = today - datetime.timedelta(days=rng.randint(0, 500))
            if d.year < y0 - 1:
                d = datetime.date(y0 - 1, 1, 2) + datetime.timedelta(days=rng.randint(0, 300))
            dates.append(d)
        runs.append({"today": today, "force": force, "vis": vis, "dates": dates, "style": style, "horizon": horizon})
    return {"cal": cal, "runs": runs, "cache": cache_kind}


def to_case(cid, h, wd):
    c = {"id": cid, "cache": h["cache"], "runs": []}
    if h["cache"] == "csv":
        c["dir"] = os.path.join(wd, "cache-" + cid)
    for r in h["runs"]:
        c["runs"].append({"today": r["today"].isoformat(), "force": r["force"], "remote": remote_spec(r["vis"]),
                          "lookups": [d.isoformat() for d in r["dates"]]})
    return c


def judge_history(h, res):
    """-> (findings, stats)"""
    f = []
    stats = {"lookups": 0, "stale_prone": 0, "no_download_claims": 0}
    covered_until = {}     # year -> last date certainly present in the cache (rate or placeholder)
    max_cached_day = None
    for ri, (r, rr_) in enumerate(zip(h["runs"], res["runs"])):
        today = r["today"]
        downloads_this_run = {}
        for li, (d, lk) in enumerate(zip(r["dates"], rr_["lookups"])):
            stats["lookups"] += 1
            x = judge_lookup(r["vis"], d, today, lk)
            if x:
                x["run"] = ri
                x["lookup_index"] = li
                x["what"] = "answer differs from the no-cache answer: " + x["what"]
                f.append(x)
                return f, stats
            evs = lk.get("events", [])
            dl = [e["year"] for e in evs if e["ev"] == "download"]
            for y in dl:
                downloads_this_run[y] = downloads_this_run.get(y, 0) + 1
                if downloads_this_run[y] > 1:
                    f.append({"what": "a year was downloaded more than once in one run", "year": y, "run": ri, "lookup_index": li})
                    return f, stats
            # no-download clause: everything this look-up can need is certainly in the cache
            need = [d - datetime.timedelta(days=k) for k in range(0, 8)]
            if not r["force"] and all(p.year in covered_until and p <= covered_until[p.year] for p in need):
                stats["no_download_claims"] += 1
                if dl:
                    f.append({"what": "download although the cached year already covers the requested date", "date": d.isoformat(),
                              "years_downloaded": dl, "run": ri, "lookup_index": li,
                              "covered_until": {str(k): v.isoformat() for k, v in covered_until.items()}})
                    return f, stats
            if max_cached_day is not None and d > max_cached_day and ri > 0:
                stats["stale_prone"] += 1
            # update certain coverage from the downloads that happened
            for y in dl:
                last = min(today - datetime.timedelta(days=1), datetime.date(y, 12, 31))
                if last >= datetime.date(y, 1, 1):
                    if y not in covered_until or last > covered_until[y]:
                        covered_until[y] = last
                    if max_cached_day is None or last > max_cached_day:
                        max_cached_day = last
    return f, stats


def clock_slice(V):
    """'Successive days' are the user's own calendar days: without the test override, the date the loader calls today
    must be the local date. Observed in two zones chosen so that, at any moment, at least one of them is on a different
    calendar day than UTC."""
    import subprocess
    for tz, hours in (("<-12>12", -12), ("<+14>-14", 14), ("UTC", 0)):
        env = dict(os.environ, TZ=tz)
        out = os.path.join(common.WORK, "clock-%d.json" % os.getpid())
        t0 = datetime.datetime.now(datetime.timezone.utc)
        p = subprocess.run([common.HARNESS_BIN, "clock", out], input=b'{"id": "c"}\n', env=env, stdout=subprocess.DEVNULL, stderr=subprocess.PIPE, timeout=60)
        t1 = datetime.datetime.now(datetime.timezone.utc)
        try:
            with open(out) as f:
                got = json.loads(f.readline())["today_local"]
            os.remove(out)
        except (OSError, ValueError, KeyError):
            V.unjudged += 1
            continue
        z = datetime.timezone(datetime.timedelta(hours=hours))
        ok = {t0.astimezone(z).date().isoformat(), t1.astimezone(z).date().isoformat()}     # either side of a midnight
        V.count()
        V.bump("clock_observations")
        if t0.astimezone(z).date() != t0.date():
            V.bump("clock_observations_on_another_day_than_utc")
        if got not in ok:
            V.violation("today's date is %s in zone %s where the local calendar day is %s" % (got, tz, sorted(ok)),
                        {"kind": "clock", "prop": PROP, "tz": tz, "got": got, "expected": sorted(ok)}, {"what": "today is not the local date"})


def run(tier):
    seed = common.seed()
    common.build()
    V = Verdict(PROP, tier)
    clock_slice(V)
    V.rule = ("histories of 1-8 runs with non-decreasing 'today', a force flag, remote data containing everything published before that day (sometimes "
              "today's too) and 1-12 look-ups per run in orders biased to 'old date first, then a date newer than the cache', weekends first, new-year "
              "look-backs; the cache (shared in-memory map, or a real CsvRatesCache directory) persists across the runs of a history; instrumented cache "
              "and remote wrappers log reads, writes and downloads per look-up. non-trivial = a later run asks for a date newer than anything an earlier run "
              "could have cached")
    n = {"quick": 700, "thorough": 25000}[tier]
    wd = common.workdir("c13")
    try:
        hs = {}
        cases = []
        for i in range(n):
            rng = common.rng_for(seed, PROP, i)
            kind = "csv" if i % 3 == 0 else "mem"
            h = gen_history(rng, i, kind)
            cid = "h%06d" % i
            hs[cid] = h
            cases.append(to_case(cid, h, wd))
        res = common.run_harness("rates", cases, tag="c13")
        for c in cases:
            V.count()
            r = res.get(c["id"], {})
            if "panic" in r:
                V.violation("a run of the history panicked: %s [history %s]" % (json.dumps(r["panic"])[:300], c["id"]),
                            {"kind": "history", "prop": PROP, "case": c}, {"what": "rate look-up panicked"})
                continue
            if "runs" not in r:
                V.unjudged += 1
                continue
            h = hs[c["id"]]
            f, st = judge_history(h, r)
            V.bump("lookups_judged", st["lookups"])
            V.bump("no_download_claims_judged", st["no_download_claims"])
            V.bump("histories_" + h["cache"])
            if st["stale_prone"]:
                V.nontriv(c["id"])
            if not f:
                V.sample({"cache": h["cache"], "runs": [{"today": x["today"], "force": x["force"], "lookups": x["lookups"]} for x in c["runs"]][:4]}, cap=2)
            for x in f[:1]:
                pub = {}
                V.violation("%s [history %s, %s cache]" % (json.dumps(x)[:500], c["id"], h["cache"]),
                            {"kind": "history", "prop": PROP, "case": dict(c, dir=None), "finding": x,
                             "published_per_run": [{k.isoformat(): v[1] for k, v in sorted(rn["vis"].published.items())
                                                    if abs((k - rn["today"]).days) < 80} for rn in h["runs"]]},
                            {"what": x["what"]})
    finally:
        common.cleanup(wd)
    return V.finish(floor_eval=100, floor_nontrivial=20, floors={"lookups_judged": 2000, "no_download_claims_judged": 200, "histories_csv": 50, "clock_observations_on_another_day_than_utc": 1})


def replay(rec):
    c = rec["case"]["case"]
    common.build()
    wd = common.workdir("c13r")
    try:
        if c["cache"] == "csv":
            c["dir"] = os.path.join(wd, "cache")
        c["id"] = "r"
        r = common.run_harness("rates", [c], tag="c13r", nproc=1)["r"]
        for ri, run_ in enumerate(r["runs"]):
            print("run %d today=%s" % (ri, run_["today"]))
            for lk in run_["lookups"]:
                print("   ", lk["date"], lk.get("rate_date"), lk.get("rate"), (lk.get("err") or "")[:60], [e["ev"] + str(e["year"]) for e in lk["events"]])
        print("recorded finding:", json.dumps(rec["case"]["finding"]))
        fx = rec["case"]["finding"]
        lk = r["runs"][fx["run"]]["lookups"][fx["lookup_index"]]
        same = True
        if "returned_date" in fx:
            same = lk.get("rate_date") == fx["returned_date"]
        if "years_downloaded" in fx:
            same = [e["year"] for e in lk["events"] if e["ev"] == "download"] == fx["years_downloaded"]
        if same:
            print("VIOLATION property=%s replay=%s" % (PROP, sys.argv[2]))
            return 1
        print("replay: not reproduced")
        return 0
    finally:
        common.cleanup(wd)


if __name__ == "__main__":
    sys.exit(common.main_dispatch(PROP, run, replay))
