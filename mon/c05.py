"""C05: every input ends in a report or a diagnostic, never a panic.

Monitors: in-process catch_unwind + panic hook (message, location); process exit status / signal /
'panicked at' for the real binaries; watchdog with isolated re-run for 'never loops';
conservative attribution check of diagnostics.
"""
import datetime
import json
import multiprocessing
import os
import re
import sys
from fractions import Fraction

sys.path.insert(0, os.path.dirname(os.path.abspath(__file__)))
import common
import gen
import ref
from common import Verdict
import ledger
from ledger import history_to_case, mkrow, ALL_AFS

PROP = "C05"


# ---------------------------------------------------------------------------------------
# workloads

def hostile_numbers(rng, kind):
    """Decimal literals inside the stated practical range: |x| < 1e12, <= 10 decimals."""
    if kind == "tiny":
        return rng.choice(["0.0000000001", "0.0000000002", "0.000000001", "0.00000001", "0.0000001"])
    if kind == "huge":
        return rng.choice(["999999999999", "999999999999.9999999999", "100000000000", "123456789012.3456789"])
    if kind == "zero":
        return rng.choice(["0", "0.0", "0.0000000000", "-0", "00"])
    if kind == "odd":
        return rng.choice(["1.0000000001", "0.3333333333", "0.6666666667", "7.0000000007", "1000000.0000000001", "+5", "05", "5.", ".5"])
    return gen.rand_dec(rng, 0, 1000, rng.randint(0, 10))


def tiny_loss_history(rng):
    """Losses between 1e-28 and 1e-9 with a re-purchase inside the window (and variations)."""
    n0 = rng.choice([3, 6, 7, 9, 11, 13, 21])
    p = rng.choice(["0.1", "0.3", "1", "10.01", "0.07"])
    c = rng.choice(["0.02", "0.01", "0.05", "0", "0.0000000001"])
    cost = (Fraction(n0) * Fraction(p) + Fraction(c)) / n0
    k = rng.randint(1, n0 - 1)
    # sale price just below average cost, floored to 10-11 decimals
    dp = rng.choice([9, 10, 10, 10])
    sp = gen.floor_dec(cost, dp)
    if rng.random() < 0.3:
        sp = gen.floor_dec(cost - Fraction(1, 10 ** 10), 10)
    d0 = datetime.date(2020, 1, 2)
    rows = [mkrow("FOO", d0.isoformat(), "Buy", "", shares=str(n0), aps=p, comm=c, cur="CAD"),
            mkrow("FOO", (d0 + datetime.timedelta(days=32)).isoformat(), "Sell", "", shares=str(k), aps=sp, cur="CAD")]
    af2 = rng.choice(["", "", "Spouse", "Default (R)"])
    off = rng.choice([1, 2, 29, 30, -3])
    rows.append(mkrow("FOO", (d0 + datetime.timedelta(days=32 + off)).isoformat(), "Buy", af2, shares=str(rng.choice([1, k, n0])), aps=p, cur="CAD"))
    if rng.random() < 0.5:
        rows.append(mkrow("FOO", (d0 + datetime.timedelta(days=90)).isoformat(), "Sell", "", shares="1", aps=sp, cur="CAD"))
    rows.sort(key=lambda r: r["sd"])
    return {"rows": rows, "init": {}, "features": ["tiny_loss"]}


def hostile_history(rng):
    """Structurally valid rows with hostile but in-range numerics."""
    k = gen.Knobs(affiliates=rng.choice(ALL_AFS), n_secs=(1, 2), n_rows=(3, 25), opening=0.3,
                  weights={"Buy": 5, "Sell": 5, "RoC": 1.5, "SfLA": 0.8, "Split": 1.0}, p_invalid=0.05,
                  start_year=(1900, 2095), offsets=[0, 1, 2, 10, 29, 30, 31, 100, 366, 3000])
    h = gen.HistoryGen(rng, k).gen()
    feats = set(h["features"])
    extreme = False
    for r in h["rows"]:
        for fld in ("shares", "aps", "comm", "fx", "cfx"):
            if r.get(fld) and rng.random() < 0.25:
                kind = rng.choice(["tiny", "zero", "odd", "tiny", "zero", "huge"])
                if kind == "huge":
                    extreme = True
                r[fld] = hostile_numbers(rng, kind)
        if r["action"] == "Sell" and rng.random() < 0.15:
            r["sfl"] = rng.choice(["0", "-0.0000000001", "-1", "-999999999999", "0!", "-0.001!", "-5.5!"])
        if r["action"] == "Split" and rng.random() < 0.3:
            r["split"] = rng.choice(["1-for-1", "1.0-for-1.0", "1000000-for-1", "1-for-1000000", "0.0000000001-for-1", "1-for-0.0000000001",
                                     "3-for-7", "2.5-for-2.5", "999999999999-for-1"])
            if "0000" in r["split"] or "999999" in r["split"]:
                extreme = True
    for s, (n, c) in list(h["init"].items()):
        if rng.random() < 0.4:
            h["init"][s] = (rng.choice(["0", "0.0000000001", "999999999999", n]), rng.choice(["0", "0.0000000001", "999999999999", c]))
            if "999999999999" in h["init"][s]:
                extreme = True
    if extreme:
        feats.add("extreme_magnitude")
    h["features"] = sorted(feats | {"hostile_numbers"})
    return h


def extreme_history(rng):
    """Several fields of one row near the top (or bottom) of the stated range at once: the product of
    three in-range fields can exceed what a 96-bit decimal holds (about 7.9e28)."""
    big = lambda: rng.choice(["999999999999", "99999999999", "500000000000.5", "999999999999.9999999999"])
    small = lambda: rng.choice(["0.0000000001", "0.000000001"])
    d0 = datetime.date(2019, 3, 1)
    kind = rng.choice(["mul3", "mul2_then_sum", "div_tiny_shares", "split_huge", "roc_huge", "fx_huge"])
    rows = []
    if kind == "mul3":
        rows.append(mkrow("BIG", d0.isoformat(), "Buy", "", shares=big(), aps=big(), cur="USD", fx=rng.choice(["99999999", big()])))
    elif kind == "mul2_then_sum":
        for i in range(rng.randint(2, 12)):
            rows.append(mkrow("BIG", (d0 + datetime.timedelta(days=i)).isoformat(), "Buy", "", shares=big(), aps=big(), cur="CAD", comm=big()))
        rows.append(mkrow("BIG", (d0 + datetime.timedelta(days=40)).isoformat(), "Sell", "", shares="1", aps=big(), cur="CAD"))
    elif kind == "div_tiny_shares":
        rows.append(mkrow("BIG", d0.isoformat(), "Buy", "", shares=small(), aps=big(), comm=big(), cur="CAD"))
        rows.append(mkrow("BIG", (d0 + datetime.timedelta(days=3)).isoformat(), "Sell", "", shares=small(), aps=big(), cur="CAD"))
    elif kind == "split_huge":
        rows.append(mkrow("BIG", d0.isoformat(), "Buy", "", shares=big(), aps="1", cur="CAD"))
        rows.append(mkrow("BIG", (d0 + datetime.timedelta(days=3)).isoformat(), "Split", "", split=rng.choice(["999999999999-for-1", "1-for-0.0000000001"])))
        rows.append(mkrow("BIG", (d0 + datetime.timedelta(days=5)).isoformat(), "Split", "", split="999999999999-for-1"))
    elif kind == "roc_huge":
        rows.append(mkrow("BIG", d0.isoformat(), "Buy", "", shares=big(), aps=big(), cur="CAD"))
        rows.append(mkrow("BIG", (d0 + datetime.timedelta(days=3)).isoformat(), "RoC", "", aps=big(), cur="USD", fx=big()))
    else:
        rows.append(mkrow("BIG", d0.isoformat(), "Buy", "", shares="10", aps="10", cur="EUR", fx=big(), comm=big(), ccur="GBP", cfx=big()))
        rows.append(mkrow("BIG", (d0 + datetime.timedelta(days=3)).isoformat(), "Sell", "", shares="5", aps=big(), cur="EUR", fx=big()))
    return {"rows": rows, "init": {}, "features": ["extreme_magnitude", "extreme_" + kind]}


VALID_SEED_CSV = """security,trade date,settlement date,action,shares,amount/share,commission,currency,exchange rate,commission currency,commission exchange rate,superficial loss,split ratio,affiliate,memo
FOO,2016-01-03,2016-01-05,Buy,20,1.5,1.25,USD,1.35,CAD,,,,Default,first buy
FOO,2016-02-03,2016-02-05,Sell,5,1.1,0.5,USD,1.4,,,,,Default,"a, quoted memo"
FOO,2016-02-10,2016-02-12,Buy,5,1.2,,USD,1.41,,,,,Spouse,
FOO,2016-03-01,2016-03-01,Split,,,,,,,,,2-for-1,,
BAR,2016-03-03,2016-03-07,Buy,10,10,,CAD,,,,,,(R),
BAR,2016-04-03,2016-04-07,RoC,,0.5,,CAD,,,,,,,
FOO,2016-05-03,2016-05-05,Sell,10,0.4,,USD,1.3,,,-1.5!,,Default,
FOO,2016-05-03,2016-05-05,SfLA,1,1.5,,,,,,,,Default,
"""

JUNK_NUMS = ["1e5", ".5", "+1", "NaN", "inf", "-inf", "１２", "1,000", "1 000", "0x10", "1/2", "--1", "1.2.3", "", " ", "9" * 40, "0." + "3" * 40,
             "1e-30", "-0", "١٢", "1_000", "$5", "5%", "\t7", "7 "]


def mutate_csv(rng, base):
    """Byte-level and structural mutations of a valid CSV. Returns bytes."""
    b = base.encode("utf-8")
    kind = rng.choice(["trunc", "bitflip", "dup_header", "drop_header", "rename_header", "both_dates", "ragged", "quotes", "nul", "badutf8",
                       "bom", "crlf", "long", "junknum", "delete_line", "swap_cells", "empty", "only_header", "unbalanced_quote", "big_repeat",
                       "junk_date", "junk_action", "cr_only", "trailing_commas", "header_twice"])
    lines = base.split("\n")
    if kind == "trunc":
        return b[:rng.randint(0, len(b))], kind
    if kind == "bitflip":
        ba = bytearray(b)
        for _ in range(rng.randint(1, 4)):
            i = rng.randrange(len(ba))
            ba[i] ^= 1 << rng.randrange(8)
        return bytes(ba), kind
    if kind == "dup_header":
        cols = lines[0].split(",")
        c = rng.choice(cols)
        lines[0] = lines[0] + "," + c
        return ("\n".join(l + (",x" if i else "") for i, l in enumerate(lines))).encode(), kind
    if kind == "drop_header":
        cols = lines[0].split(",")
        i = rng.randrange(len(cols))
        out = []
        for l in lines:
            cs = l.split(",")
            if len(cs) > i:
                del cs[i]
            out.append(",".join(cs))
        return "\n".join(out).encode(), kind
    if kind == "rename_header":
        cols = lines[0].split(",")
        i = rng.randrange(len(cols))
        cols[i] = rng.choice(["date", "Settlement Date ", "SHARES", "amount", "foo", "", " ", "security ", "memo", "exchange  rate"])
        lines[0] = ",".join(cols)
        return "\n".join(lines).encode(), kind
    if kind == "both_dates":
        lines[0] = lines[0].replace("trade date", "trade date,date")
        return "\n".join(l.replace(",2016-0", ",2016-01-01,2016-0", 1) if i else l for i, l in enumerate(lines)).encode(), kind
    if kind == "ragged":
        i = rng.randrange(1, max(2, len(lines) - 1))
        cs = lines[i].split(",")
        lines[i] = ",".join(cs[:rng.randint(0, len(cs))]) if rng.random() < 0.5 else lines[i] + ",a,b,c"
        return "\n".join(lines).encode(), kind
    if kind == "quotes":
        i = rng.randrange(len(b))
        return b[:i] + rng.choice([b'"', b'""', b'"\n"', b"'", b'","']) + b[i:], kind
    if kind == "nul":
        i = rng.randrange(len(b))
        return b[:i] + b"\x00" * rng.randint(1, 3) + b[i:], kind
    if kind == "badutf8":
        i = rng.randrange(len(b))
        return b[:i] + rng.choice([b"\xff", b"\xc3\x28", b"\xe2\x82", b"\xf0\x9f", b"\x80"]) + b[i:], kind
    if kind == "bom":
        return b"\xef\xbb\xbf" + b, kind
    if kind == "crlf":
        return base.replace("\n", "\r\n").encode(), kind
    if kind == "cr_only":
        return base.replace("\n", "\r").encode(), kind
    if kind == "long":
        i = rng.randrange(1, len(lines) - 1)
        cs = lines[i].split(",")
        j = rng.randrange(len(cs))
        cs[j] = rng.choice(["9", "a", "é"]) * rng.choice([100, 5000, 100000])
        lines[i] = ",".join(cs)
        return "\n".join(lines).encode(), kind
    if kind == "junknum":
        i = rng.randrange(1, len(lines) - 1)
        cs = lines[i].split(",")
        j = rng.choice([4, 5, 6, 8, 10, 11])
        if j < len(cs):
            cs[j] = rng.choice(JUNK_NUMS)
        lines[i] = ",".join(cs)
        return "\n".join(lines).encode(), kind
    if kind == "junk_date":
        i = rng.randrange(1, len(lines) - 1)
        cs = lines[i].split(",")
        cs[rng.choice([1, 2])] = rng.choice(["2016-13-01", "2016-02-30", "0000-01-01", "99999-01-01", "2016/01/05", "Jan 5 2016", "", "2016-1-5",
                                              "-2016-01-05", "1899-12-31", "2101-01-01", "9999-12-31", "+2016-01-05"])
        lines[i] = ",".join(cs)
        return "\n".join(lines).encode(), kind
    if kind == "junk_action":
        i = rng.randrange(1, len(lines) - 1)
        cs = lines[i].split(",")
        cs[3] = rng.choice(["buy", " SELL ", "Bought", "sold short", "Dividend", "", "BuySell", "split", "sfla", "ROC"])
        lines[i] = ",".join(cs)
        return "\n".join(lines).encode(), kind
    if kind == "delete_line":
        i = rng.randrange(0, len(lines) - 1)
        del lines[i]
        return "\n".join(lines).encode(), kind
    if kind == "swap_cells":
        i = rng.randrange(1, len(lines) - 1)
        cs = lines[i].split(",")
        a, c = rng.randrange(len(cs)), rng.randrange(len(cs))
        cs[a], cs[c] = cs[c], cs[a]
        lines[i] = ",".join(cs)
        return "\n".join(lines).encode(), kind
    if kind == "empty":
        return rng.choice([b"", b"\n", b"\n\n\n", b" ", b","]), kind
    if kind == "only_header":
        return (lines[0] + rng.choice(["", "\n", "\n\n"])).encode(), kind
    if kind == "unbalanced_quote":
        return (base + '"unterminated,').encode(), kind
    if kind == "big_repeat":
        body = "\n".join(lines[1:3]) + "\n"
        return (lines[0] + "\n" + body * rng.choice([200, 2000])).encode(), kind
    if kind == "trailing_commas":
        return "\n".join(l + ",,," for l in lines).encode(), kind
    if kind == "header_twice":
        return (lines[0] + "\n" + base).encode(), kind
    return b, kind


DATE_FMTS = [None, "[year]-[month]-[day]", "[month]/[day]/[year]", "[day].[month].[year]", "[year][month][day]", "[bogus]", "[year", "", "%Y-%m-%d",
             "[year]-[month]", "[month repr:short] [day], [year]", "[weekday] [day]", "[hour]:[minute]"]
INIT_SPECS = [[], ["FOO:10:100"], ["FOO:0:0"], ["BAR:5.5:0"], ["FOO:1:2", "BAR:3:4"], ["NOPE:1:1"], ["FOO:1"], ["FOO:x:y"], ["FOO:-1:1"],
              ["foo:10:100"], ["Foo:1:1", "bar:2:2"], [" FOO :3:30"], ["xyz:1:1", "vti:2:2", "qqq:3:3", "z:1:1", "abc.to:1:1"], ["FOO:1:1", "foo:2:2"],
              ["FOO:999999999999:999999999999"], ["FOO:0.0000000001:0.0000000001"], [""], [":::"], ["FOO:1:1", "FOO:2:2"]]


# ---------------------------------------------------------------------------------------
# judging

def attributed(msg, secs, files, extra=()):
    m = msg or ""
    if any(f and f in m for f in files):
        return True
    if re.search(r"\brow\s+\d+", m, re.I):
        return True
    if any(s and re.search(r"(?<![A-Za-z0-9_.])" + re.escape(s) + r"(?![A-Za-z0-9_])", m) for s in secs):
        return True
    if any(e and e in m for e in extra):
        return True
    return False


def judge_app_result(res, secs, files, option_strings=()):
    """-> (status, detail) status in: report, diagnostic, PANIC, HANG, CRASH, UNATTRIBUTED, SILENT"""
    if "panic" in res:
        return "PANIC", res["panic"]
    if "hang" in res:
        return "HANG", res["hang"]
    if "crash" in res:
        return "CRASH", res["crash"]
    if "harness_error" in res:
        return "HARNESS", res["harness_error"]
    if res.get("ok"):
        return "report", None
    msg = res.get("err")
    if msg is None and res.get("sec_errors"):
        return "diagnostic", None       # summary mode: errors keyed by security
    if not msg or not str(msg).strip():
        return "SILENT", res
    if res.get("stage") in ("init", "date_fmt", "summary_date"):
        return "diagnostic", None       # message is prefixed with the option name by the front end
    if attributed(str(msg), secs, files, option_strings):
        return "diagnostic", None
    return "UNATTRIBUTED", str(msg)


def diag_class(res):
    m = res.get("err") or ""
    if not m and res.get("sec_errors"):
        m = res["sec_errors"][0][1]
    return re.sub(r"[0-9]+", "#", str(m))[:40]


def _worker(shard):
    """shard: list of case dicts with private keys _secs, _files, _name, _feat, _payload."""
    cases = []
    for c in shard:
        cases.append({k: v for k, v in c.items() if not k.startswith("_")})
    res = common.run_harness("app", cases, tag="c05", nproc=1, per_case_timeout=30.0)
    out = []
    for c in shard:
        r = res.get(c["id"], {"crash": "missing"})
        st, detail = judge_app_result(r, c["_secs"], c["_files"], c.get("_opts", ()))
        # per-security errors are attributed by construction; text path panics are caught by the same hook
        cls = (c["_front"], c["_optset"], st if st in ("report",) else diag_class(r) if st == "diagnostic" else st)
        o = {"id": c["id"], "status": st, "class": cls, "name": c["_name"], "feat": c["_feat"], "us": r.get("us", 0)}
        if st not in ("report", "diagnostic"):
            o["detail"] = detail
            o["payload"] = c["_payload"]
        out.append(o)
    return out


def mk_app_case(cid, name, files, init, secs, feat, want=("model", "text"), full=True, costs=False, summary=None, date_fmt=None,
                front="library", remote=None, today=None):
    c = {"id": cid, "files": files, "init": init, "full": full, "costs": costs, "want": list(want)}
    if summary:
        c["summary"] = summary
    if date_fmt is not None:
        c["date_fmt"] = date_fmt
    if remote is not None:
        c["remote"] = remote
    if today:
        c["today"] = today
    c["_secs"] = secs
    c["_files"] = [f[0] if isinstance(f, list) else os.path.basename(f["path"]) for f in files]
    c["_name"] = name
    c["_feat"] = feat
    c["_front"] = front
    optset = "%s%s%s%s%s" % ("F" if full else "f", "C" if costs else "c", "S" if summary else "s", "D" if date_fmt else "d", "B" if init else "b")
    c["_optset"] = optset
    c["_opts"] = tuple(init) + ((date_fmt,) if date_fmt else ())
    c["_payload"] = {"kind": "app", "case": {k: v for k, v in c.items() if not k.startswith("_")}, "secs": secs}
    return c


def secs_of(h):
    return sorted({r["sec"] for r in h["rows"]} | set(h.get("init", {})))


def history_cases(prefix, name, h, rng, n_variants=2):
    """A history under several option combinations."""
    text = gen.rows_to_csv(h["rows"], gen.used_cols(h["rows"]))
    files = [["in.csv", text]]
    init = gen.init_args(h.get("init", {}))
    secs = secs_of(h)
    feat = hist_feat(h)
    out = [mk_app_case(prefix + "#0", name, files, init, secs, feat, full=True, costs=True)]
    return _history_variants(out, prefix, name, files, init, secs, feat, h, rng, n_variants)


def hist_feat(h, extra=()):
    feats = list(h.get("features", [])) + list(extra)
    for r in h["rows"]:
        if r["action"] == "Split" and r.get("split"):
            try:
                den = gen.split_factor(r["split"]).denominator
            except (ValueError, ZeroDivisionError):
                continue
            while den % 2 == 0:
                den //= 2
            while den % 5 == 0:
                den //= 5
            if den != 1 and "nonterminating_split" not in feats:
                feats.append("nonterminating_split")
    return ",".join(sorted(feats, key=lambda f: (f not in ("extreme_magnitude", "nonterminating_split"), f)))[:120]


def _history_variants(out, prefix, name, files, init, secs, feat, h, rng, n_variants):
    sds = sorted({r["sd"] for r in h["rows"]})
    for v in range(n_variants):
        full = rng.random() < 0.5
        costs = rng.random() < 0.5
        summ = None
        if sds and rng.random() < 0.6:
            d = datetime.date.fromisoformat(rng.choice(sds)) + datetime.timedelta(days=rng.choice([-31, -30, -1, 0, 0, 1, 29, 30, 31]))
            if 1 <= d.year <= 9999:
                summ = {"date": d.isoformat(), "annual": rng.random() < 0.5}
        out.append(mk_app_case("%s#%d" % (prefix, v + 1), name, files, init, secs, feat, full=full, costs=costs, summary=summ))
    return out


BOC_BODIES = ["", "{", "null", "[]", "{}", '{"observations": null}', '{"observations": {}}', '{"observations": [1, "x", null, []]}',
              '{"observations": [{"d": 5}]}', '{"observations": [{"d": "2016-01-05"}]}', '{"observations": [{"d": "2016-01-05", "IEXE0101": 5}]}',
              '{"observations": [{"d": "2016-01-05", "IEXE0101": {"v": "abc"}}]}', '{"observations": [{"d": "2016-01-05", "IEXE0101": {"v": "0"}}]}',
              '{"observations": [{"d": "2016-01-05", "IEXE0101": {"v": "-1.3"}}]}', '{"observations": [{"d": "2016-01-05", "FXCADUSD": {"v": "0.000000001"}}]}',
              '{"observations": [{"d": "2016-01-05", "IEXE0101": {"v": "1e400"}}]}', '{"observations": [{"d": "2016-01-05", "IEXE0101": {"v": 1.39}}]}',
              '{"observations": [{"d": "2016-13-45", "IEXE0101": {"v": "1.39"}}]}', '{"observations": [{"d": "2015-01-05", "IEXE0101": {"v": "1.39"}}]}',
              '{"observations": [{"d": "2016-01-06", "IEXE0101": {"v": "1.40"}}, {"d": "2016-01-05", "IEXE0101": {"v": "1.39"}}]}',
              '{"observations": [{"d": "2016-01-05", "IEXE0101": {"v": "1.39"}}, {"d": "2016-01-05", "IEXE0101": {"v": "1.41"}}]}',
              '{"observations": [{"d": "2016-01-05", "FXCADUSD": {"v": "79228162514264337593543950335"}}]}',
              '{"observations": "' + "x" * 1000 + '"}', '<html>503</html>', '{"observations": [{"d": "2016-01-05", "IEXE0101": {"v": "1.39"}}]']


def build_population(tier, seed):
    pop = []
    n_shared = {"quick": 250, "thorough": 8000}[tier]
    # (1) a slice of every other property's generator
    import c06
    import c10
    import c17
    import meta
    sources = [("C01", lambda r: gen.HistoryGen(r, ledger.profile("C01", r)).gen()),
               ("C02", lambda r: gen.HistoryGen(r, ledger.profile("C02", r)).gen()),
               ("C03", lambda r: gen.HistoryGen(r, ledger.profile("C03", r)).gen()),
               ("C04", lambda r: gen.HistoryGen(r, ledger.profile("C04", r)).gen()),
               ("C06", lambda r: gen.HistoryGen(r, c06.profile(r)).gen()),
               ("C07", lambda r: gen.HistoryGen(r, meta.c07_profile(r)).gen()),
               ("C10", lambda r: gen.HistoryGen(r, c10.profile(r)).gen()),
               ("C15", lambda r: meta.c15_variant(r, gen.HistoryGen(r, meta.c15_profile(r)).gen())[0]),
               ("C16", lambda r: meta.c16_build(r, gen.HistoryGen(r, meta.c16_profile(r)).gen())[0]),
               ("C17", lambda r: gen.HistoryGen(r, c17.profile(r)).gen())]
    for sname, fn in sources:
        for i in range(n_shared):
            rng = common.rng_for(seed, PROP, "shared", sname, i)
            try:
                h = fn(rng)
            except (IndexError, ValueError):
                continue
            if not h["rows"]:
                continue
            pop += history_cases(common.case_id(seed, PROP, sname, i), "%s-gen #%d" % (sname, i), h, rng, 1)
    # ... and the crafted families of the summary check (gain/loss boundary shapes, a zero-net year, a late affiliate),
    # each at its own summary dates in both summary modes
    rngf = common.rng_for(seed, PROP, "c10fam")
    for k, (fname, h, dates) in enumerate(c10.d6_family(rngf, 25 if tier == "quick" else 400)):
        text = gen.rows_to_csv(h["rows"], gen.used_cols(h["rows"]))
        for di, D in enumerate(dates):
            for annual in (False, True):
                pop.append(mk_app_case(common.case_id(seed, PROP, "c10fam", k * 10 + di * 2 + annual), "C10 family %s D=%s annual=%s" % (fname, D, annual),
                                       [["in.csv", text]], [], secs_of(h), hist_feat(h), want=("model",), full=True, summary={"date": D, "annual": annual}))
    rng = common.rng_for(seed, PROP, "fam")
    for name, h in ledger.c04_reason_family(rng, 200 if tier == "quick" else 4000):
        pop += history_cases(common.case_id(seed, PROP, "reason", len(pop)), name, h, rng, 1)
    for name, h in ledger.c02_user_sfl_family(rng, 150 if tier == "quick" else 3000):
        pop += history_cases(common.case_id(seed, PROP, "usfl", len(pop)), name, h, rng, 1)
    # (2) hostile numerics
    for i in range({"quick": 1500, "thorough": 60000}[tier]):
        rng = common.rng_for(seed, PROP, "tiny", i)
        pop += history_cases(common.case_id(seed, PROP, "tiny", i), "tiny-loss #%d" % i, tiny_loss_history(rng), rng, 1)
    for i in range({"quick": 2500, "thorough": 100000}[tier]):
        rng = common.rng_for(seed, PROP, "host", i)
        pop += history_cases(common.case_id(seed, PROP, "host", i), "hostile-numbers #%d" % i, hostile_history(rng), rng, 1)
    for i in range({"quick": 300, "thorough": 6000}[tier]):
        rng = common.rng_for(seed, PROP, "extreme", i)
        pop += history_cases(common.case_id(seed, PROP, "extreme", i), "extreme-magnitude #%d" % i, extreme_history(rng), rng, 1)
    # (3) option combinations incl. invalid date formats and opening-position strings
    for i in range({"quick": 600, "thorough": 20000}[tier]):
        rng = common.rng_for(seed, PROP, "opt", i)
        h = gen.HistoryGen(rng, ledger.profile("C04", rng)).gen()
        if not h["rows"]:
            continue
        text = gen.rows_to_csv(h["rows"], gen.used_cols(h["rows"]))
        fmt = rng.choice(DATE_FMTS)
        init = rng.choice(INIT_SPECS)
        if rng.random() < 0.3:
            # opening positions for the input's own securities, in another letter case
            init = ["%s:%s:%s" % (rng.choice([sx.lower(), sx.title(), sx]), rng.choice(["1", "10.5", "0"]), rng.choice(["0", "100"]))
                    for sx in sorted({r["sec"] for r in h["rows"]})]
        summ = None
        if rng.random() < 0.4:
            summ = {"date": rng.choice(["2000-01-01", "2015-06-30", "2030-12-31", "0001-01-01", "9999-12-31", "2020-02-30", "junk"]), "annual": rng.random() < 0.5}
        c = mk_app_case(common.case_id(seed, PROP, "opt", i), "options #%d" % i, [["in.csv", text]], init, secs_of(h), hist_feat(h, ["options"]),
                        full=rng.random() < 0.5, costs=rng.random() < 0.5, summary=summ, date_fmt=fmt)
        pop.append(c)
    # (4) hostile remote bodies for USD rows without a rate
    for i, body in enumerate(BOC_BODIES * (1 if tier == "quick" else 4)):
        rng = common.rng_for(seed, PROP, "boc", i)
        rows = [mkrow("FOO", "2016-01-05", "Buy", "", td=rng.choice(["2016-01-05", "2016-01-03", "2016-01-01", "2016-01-09"]), shares="10", aps="5", cur="USD",
                      comm=rng.choice(["", "1"]), ccur=rng.choice(["", "USD"]))]
        c = mk_app_case(common.case_id(seed, PROP, "boc", i), "remote-body #%d" % i, [["usd.csv", gen.rows_to_csv(rows, gen.used_cols(rows))]], [], ["FOO"],
                        "hostile_remote", remote={"kind": "json", "years": {"2016": body, "2015": body}}, today="2016-06-01")
        pop.append(c)
    return pop


def build_mutations(tier, seed, wd):
    """Byte-level mutations written to files; run in-process through a file path and, for a sample, through the binary."""
    out = []
    bases = [VALID_SEED_CSV]
    for i in range(6):
        rng = common.rng_for(seed, PROP, "mbase", i)
        h = gen.HistoryGen(rng, ledger.profile("C01", rng)).gen()
        bases.append(gen.rows_to_csv(h["rows"][:12], gen.COLS))
    n = {"quick": 3000, "thorough": 120000}[tier]
    for i in range(n):
        rng = common.rng_for(seed, PROP, "mut", i)
        base = rng.choice(bases)
        data, kind = mutate_csv(rng, base)
        p = os.path.join(wd, "m%06d.csv" % i)
        with open(p, "wb") as f:
            f.write(data)
        secs = set(re.findall(r"^([A-Z.]+),", base, re.M))
        # the mutation may have changed a security's name (a 100-digit name, a NUL inside): a diagnostic that quotes
        # the name as it stands in the mutated file does attribute the problem to that security
        dlines = data.decode("utf-8", "replace").split("\n")
        hdr_cells = [x.strip().strip('"').lower() for x in dlines[0].split(",")] if dlines else []
        sec_cols = {0} | {k for k, x in enumerate(hdr_cells) if x == "security"}      # the mutation may have moved the security column
        for line in dlines[1:400]:
            parts = line.split(",")
            for k in sec_cols:
                if k < len(parts):
                    cell = parts[k].strip().strip('"')
                    if cell and len(cell) <= 300:
                        secs.add(cell)
        secs = sorted(secs)
        feat = "mutation:" + kind
        if kind == "big_repeat" and b"Split" in data[:2000]:
            # hundreds of compounding splits take balances far beyond 1e12 (see KF-C05-decimal-overflow)
            feat += ",extreme_magnitude"
        c = mk_app_case(common.case_id(seed, PROP, "mut", i), "mutation %s #%d" % (kind, i), [{"path": p}], [], secs, feat,
                        want=("model",), full=rng.random() < 0.5, costs=rng.random() < 0.3)
        c["_payload"]["bytes_hex"] = data[:20000].hex()
        out.append(c)
    # truncation at every offset of the small seed file (exhaustive for that file)
    b = VALID_SEED_CSV.encode()
    step = 1 if tier == "thorough" else 3
    for off in range(0, len(b) + 1, step):
        p = os.path.join(wd, "t%05d.csv" % off)
        with open(p, "wb") as f:
            f.write(b[:off])
        c = mk_app_case("trunc%05d" % off, "truncate@%d" % off, [{"path": p}], [], ["FOO", "BAR"], "mutation:trunc_exhaustive", want=("model",))
        c["_payload"]["bytes_hex"] = b[:off].hex()
        out.append(c)
    return out


def cli_option_grid(V, wd):
    """Every option of the acb binary with hostile values, one at a time and in pairs, on a small valid input: the run
    must end in a report or a message, never in a panic (exit 101) or a signal."""
    inp = os.path.join(wd, "grid.csv")
    with open(inp, "w") as f:
        f.write(VALID_SEED_CSV)
    dates = ["2016-03-01", "2016-3-1", "2016", "", "2016-03-0\u0661", "20160301", "2016-03-01T00:00:00", "2016-13-40", "next january", " 2016-03-01", "9999-12-31", "0000-01-01"]
    fmts = ["[year]-[month]-[day]", "[bogus]", "", "[year", "%Y-%m-%d", "[day]/[month]/[year]", "[year]-[month]-[day] [hour]"]
    bases = [["FOO:1:1"], ["FOO:1:1", "FOO:2:2"], ["FOO:20:200.00", "FOO:5:70.00"], ["BAR:1:1", "BAR:0:0"], ["FOO"], [""], [" "], ["FOO:1:1", ""], ["foo:1:1", "FOO:1:1"],
             ["FOO:1e3:1"], ["FOO:1:1:1"], ["FOO:\u0661:1"], ["FOO:1:-0"], ["FOO:0:5"]]
    outs = [os.path.join(wd, "grid-out"), os.path.join(wd, "grid-out", "nested", "deeper"), inp, "", "/proc/nonexistent/x"]
    grid = [["--summarize-before", d] for d in dates] + [["--summarize-before", d, "--summarize-annual-gains"] for d in dates[:6]]
    grid += [["--date-fmt", x] for x in fmts]
    grid += [sum((["-b", b] for b in bs), []) for bs in bases]
    grid += [sum((["-b", b] for b in bs), []) + extra for bs in bases[:4] for extra in (["--total-costs"], ["--summarize-before", "2016-04-01"], ["-d", outs[0]])]
    grid += [["-d", o] for o in outs] + [["-d", outs[0], "--total-costs", "--print-full-values"], ["--summarize-annual-gains"], ["-v", "-f"],
                                         ["--total-costs", "--summarize-before", "2016-04-01"], ["-d", outs[0], "--summarize-before", "2016-04-01"]]

    def one(extra):
        return extra, common.run_cli("acb", [inp] + extra, home=wd, timeout=60)
    for extra, r in common.pmap(one, grid):
        V.count()
        V.bump("binary_option_runs")
        err = r["err"].decode("utf-8", "replace")
        if r["rc"] == "timeout":
            V.violation("acb %s did not terminate within 60 s" % extra, {"kind": "cli_options", "prop": PROP, "args": extra}, {"what": "binary hangs on options"})
        elif r["rc"] not in (0, 1, 2) or "panicked at" in err:
            V.violation("acb %s panicked / was killed: rc=%s %s" % (extra, r["rc"], err[-250:]), {"kind": "cli_options", "prop": PROP, "args": extra},
                        {"what": "binary panics on options"})
        elif r["rc"] != 0 and not err.strip():
            V.violation("acb %s failed without a message" % extra, {"kind": "cli_options", "prop": PROP, "args": extra}, {"what": "binary fails silently on options"})


def cli_sample(V, tier, seed, muts, wd):
    """The real acb binary on a sample: exit status, signals, 'panicked at', and report/diagnostic presence."""
    k = {"quick": 250, "thorough": 4000}[tier]
    rngs = common.rng_for(seed, PROP, "cli")
    sample = rngs.sample(muts, min(k, len(muts)))

    def one(c):
        path = c["files"][0]["path"]
        args = [path]
        extra = rngs.choice([[], ["--print-full-values"], ["--total-costs"], ["-d", os.path.join(wd, "o-" + c["id"])], ["--summarize-before", "2016-03-01"],
                             ["--summarize-before", "2016-03-01", "--summarize-annual-gains"], ["-b", "FOO:1:1"], ["-b", "FOO"], ["--date-fmt", "[bogus]"],
                             ["--date-fmt", "[year]-[month]-[day]"], ["--verbose"]])
        r = common.run_cli("acb", args + extra, home=wd, timeout=60)
        return c, extra, r
    for c, extra, r in common.pmap(one, sample):
        V.count()
        V.bump("binary_runs")
        err = r["err"].decode("utf-8", "replace")
        out = r["out"].decode("utf-8", "replace")
        payload = dict(c["_payload"], extra_args=extra)
        if r["rc"] == "timeout":
            V.violation("acb did not terminate within 60 s [%s %s]" % (c["_name"], extra), payload, {"what": "hang", "front": "acb"})
        elif r["rc"] not in (0, 1, 2) or "panicked at" in err:
            m = re.search(r"panicked at ([^\n]+)", err)
            V.violation("acb panicked/aborted rc=%s: %s [%s %s]" % (r["rc"], err[-300:], c["_name"], extra), payload,
                        {"what": "PANIC", "front": "acb", "msg": err[-300:], "loc": m.group(1) if m else "", "feat": c["_feat"]})
        elif r["rc"] == 0 and not (out.strip() or any(x == "-d" for x in extra) or "--summarize-before" in extra):
            V.violation("acb exited 0 without a report [%s %s]" % (c["_name"], extra), payload, {"what": "silent success", "front": "acb"})
        elif r["rc"] != 0 and not err.strip():
            V.violation("acb exited %s without a diagnostic [%s %s]" % (r["rc"], c["_name"], extra), payload, {"what": "silent failure", "front": "acb"})
        elif r["rc"] != 0:
            files = [os.path.basename(c["files"][0]["path"])]
            if not attributed(err, c["_secs"], files, ("--symbol-base", "--date-fmt", "usage", "Usage")):
                V.violation("acb diagnostic names no file, row or security: %r [%s %s]" % (err[-200:], c["_name"], extra), payload,
                            {"what": "unattributed diagnostic", "front": "acb", "msg": err[-200:]})
            else:
                V.nontriv(("acb", tuple(extra[:1]), re.sub(r"[0-9]+", "#", err)[:40]))
        else:
            V.nontriv(("acb", tuple(extra[:1]), "report"))


def run(tier):
    seed = common.seed()
    common.build(bins=True)
    V = Verdict(PROP, tier)
    V.rule = ("(1) a slice of every other property's generator under random option sets; (2) hostile but in-range numerics: tiny losses (1e-28..1e-9) with a "
              "re-purchase in the window, zeros, 1e-10 and 1e12-scale fields, odd literals, zero-share opening positions; (3) option combinations incl. invalid "
              "--date-fmt, malformed -b, summary dates at boundaries; (4) hostile Bank-of-Canada bodies behind a fake requester; (5) byte-level mutations of valid "
              "CSVs (25 kinds) and truncation at every offset of a small file, in-process via file path and through the real acb binary; (6) generated/mutated "
              "inputs for tx-export-convert and etrade-plan-pdf-tx-extract (see C18/C19 workloads, run here for panics). non-trivial = distinct (front end, option "
              "set, outcome class) triples, outcome class = report, or the first 40 characters of the diagnostic with digits stripped")
    wd = common.workdir("c05")
    try:
        pop = build_population(tier, seed)
        muts = build_mutations(tier, seed, wd)
        allc = pop + muts
        nsh = common.NPROC * 6
        shards = [s for s in (allc[i::nsh] for i in range(nsh)) if s]
        with multiprocessing.Pool(common.NPROC) as pool:
            parts = pool.map(_worker, shards)
        times = []
        for part in parts:
            for o in part:
                V.count()
                times.append(o["us"])
                st = o["status"]
                V.bump("status_" + st)
                if st in ("report", "diagnostic"):
                    V.nontriv(tuple(o["class"]))
                    continue
                d = o.get("detail")
                sig = {"what": st, "front": "library", "feat": o["feat"]}
                if st == "PANIC":
                    sig["loc"] = d.get("loc", "")
                    sig["msg"] = d.get("msg", "")
                    desc = "panic at %s: %s" % (d.get("loc"), str(d.get("msg"))[:200])
                elif st == "UNATTRIBUTED":
                    sig["msg"] = d
                    desc = "diagnostic names no file, row or security: %r" % d[:200]
                else:
                    desc = "%s: %s" % (st, json.dumps(d)[:200])
                V.violation("%s [%s]" % (desc, o["name"]), o["payload"], sig)
        times.sort()
        if times:
            V.extra["case_time_us_median"] = times[len(times) // 2]
            V.extra["case_time_us_max"] = times[-1]
        cli_sample(V, tier, seed, muts, wd)
        cli_option_grid(V, wd)
        try:
            import c05_periph
            c05_periph.run_into(V, tier, seed)
        except ImportError:
            V.extra["peripheral_front_ends"] = "not built yet"
        V.sample({"tiny_loss_example": gen.rows_to_csv(tiny_loss_history(common.rng_for(seed, "s"))["rows"], gen.COLS[:8])})
        V.sample({"mutation_kinds": sorted({c["_feat"] for c in muts})})
    finally:
        common.cleanup(wd)
    return V.finish(floor_eval=1000, floor_nontrivial=20, floors={"status_report": 1000, "status_diagnostic": 300, "binary_runs": 50})


def replay(rec):
    c = rec["case"]
    common.build(bins=True)
    wd = common.workdir("c05r")
    try:
        case = c["case"]
        if "bytes_hex" in c:
            p = os.path.join(wd, "replay.csv")
            with open(p, "wb") as f:
                f.write(bytes.fromhex(c["bytes_hex"]))
            case["files"] = [{"path": p}]
        if "extra_args" in c:
            r = common.run_cli("acb", [case["files"][0]["path"]] + c["extra_args"], home=wd, timeout=120)
            err = r["err"].decode("utf-8", "replace")
            print("rc=%s stderr tail=%r" % (r["rc"], err[-400:]))
            if r["rc"] not in (0, 1, 2) or "panicked at" in err or r["rc"] == "timeout":
                print("VIOLATION property=%s replay=%s" % (PROP, sys.argv[2]))
                return 1
        case["id"] = "r"
        res = common.run_harness("app", [case], tag="c05r", nproc=1, per_case_timeout=60)["r"]
        files = [f[0] if isinstance(f, list) else os.path.basename(f["path"]) for f in case["files"]]
        st, d = judge_app_result(res, c.get("secs", []), files, tuple(case.get("init", [])))
        print("status:", st, json.dumps(d)[:500] if d else "")
        if st not in ("report", "diagnostic"):
            print("VIOLATION property=%s replay=%s" % (PROP, sys.argv[2]))
            return 1
        return 0
    finally:
        common.cleanup(wd)


if __name__ == "__main__":
    sys.exit(common.main_dispatch(PROP, run, replay))
