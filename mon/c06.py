"""C06: every total equals the sum of the rows it summarises; rounding is display-only."""
import csv
import datetime
import io
import json
import multiprocessing
import os
import re
import sys
from fractions import Fraction

sys.path.insert(0, os.path.dirname(os.path.abspath(__file__)))
import common
import gen
import ref
from common import Verdict
from ledger import history_to_case, mkrow, ALL_AFS

PROP = "C06"
SUM_TOL = Fraction(1, 10 ** 18)
MONEY_RE = re.compile(r"\$(-?\d+(?:\.\d+)?)|\((-?\d+(?:\.\d+)?) ([A-Z]{2,5})\)")


def profile(rng):
    return gen.Knobs(affiliates=rng.choice(ALL_AFS), n_secs=(2, 6), n_rows=(20, 120),
                     p_invalid=rng.choice([0.0, 0.0, 0.01, 0.02]), opening=0.15,
                     offsets=[0, 1, 2, 5, 10, 30, 45, 100, 200, 364, 365, 366, 400, 700],
                     td_lag=[0, 1, 2, 2, 3, 4, 5], start_year=(1995, 2012),
                     weights={"Buy": 5, "Sell": 6, "RoC": 0.8, "SfLA": 0.2, "Split": 0.5})


def year_end_family(rng, n):
    """Sales that trade in one year and settle in the next, several securities, half-cent gains."""
    out = []
    for i in range(n):
        rows = []
        nsec = rng.randint(2, 5)
        y0 = rng.randint(1999, 2015)
        for s in range(nsec):
            sec = ["AAA", "BBB", "CCC", "DDD", "EEE"][s]
            q = rng.choice([3, 5, 7, 9, 11, 101])
            p = Fraction(rng.randint(100, 5000), 100)
            rows.append(mkrow(sec, "%d-02-0%d" % (y0, s + 1), "Buy", "", shares=str(q * 4), aps=gen.dec_str(p, 2), cur="CAD"))
            for k in range(rng.randint(1, 4)):
                y = y0 + k
                td = datetime.date(y, 12, rng.choice([28, 29, 30, 31]))
                sd = datetime.date(y + 1, 1, rng.choice([1, 2, 3, 4]))
                delta = Fraction(rng.choice([125, 375, 5, 15, 995, 1005, 2225]), 1000) * rng.choice([1, -1])
                sp = p + delta
                if sp < 0:
                    sp = p
                nsell = rng.choice([1, 1, 3, 5])
                rows.append(mkrow(sec, sd.isoformat(), "Sell", "", td=td.isoformat(), shares=str(nsell),
                                  aps=gen.dec_str(sp, 3), cur="CAD"))
            if rng.random() < 0.25:
                rows.append(mkrow(sec, "%d-06-01" % (y0 + 6), "Sell", "", shares=str(q * 40), aps="1", cur="CAD"))
        rows = gen.admissible_shuffle(rng, rows)
        out.append(("year_end #%d" % i, {"rows": rows, "init": {}, "features": ["year_end_family"]}))
    return out


def round_half_away(v, dp=2):
    scale = 10 ** dp
    x = v * scale
    n = abs(x)
    fl = n.numerator // n.denominator
    if n - fl >= Fraction(1, 2):
        fl += 1
    return (-1 if x < 0 else 1) * Fraction(fl, scale)


def fmt2(v):
    neg = v < 0
    n = abs(v) * 100
    assert n.denominator == 1
    n = n.numerator
    s = "%d.%02d" % (n // 100, n % 100)
    return ("-" if neg else "") + s


def expect_default_cell(full_cell):
    def rep(m):
        if m.group(1) is not None:
            return "$" + fmt2(round_half_away(Fraction(m.group(1))))
        return "(%s %s)" % (fmt2(round_half_away(Fraction(m.group(2)))), m.group(3))
    return MONEY_RE.sub(rep, full_cell)


def norm_negzero(s):
    # "-$0.00" vs "$0.00": the sign of a value that rounds to zero follows the unrounded value
    return s


def judge_tables(full, dflt, findings, counts):
    """Rounding relation between the two renders of one run."""
    def walk(tf, td, where):
        for ri, (rf, rd) in enumerate(zip(tf["rows"], td["rows"])):
            for ci, (cf, cd) in enumerate(zip(rf, rd)):
                counts["cells"] = counts.get("cells", 0) + 1
                exp = expect_default_cell(cf)
                if exp != cd:
                    # memo wrapping can differ only if memo contains money-like tokens; compare strictly
                    findings.append({"what": "default-precision cell is not the rounded full-precision cell",
                                     "where": "%s row %d col %d" % (where, ri, ci), "full": cf, "default": cd, "expected": exp})
                    return
        if len(tf["rows"]) != len(td["rows"]):
            findings.append({"what": "row count differs between precision modes", "where": where})
        for ci, (cf, cd) in enumerate(zip(tf["footer"], td["footer"])):
            exp = expect_default_cell(cf)
            if exp != cd:
                findings.append({"what": "default-precision footer is not the rounded full-precision footer",
                                 "where": where, "full": cf, "default": cd, "expected": exp})
                return
    for sec in full["tables"]:
        if sec not in dflt["tables"]:
            findings.append({"what": "security missing in default-precision run", "where": sec})
            continue
        walk(full["tables"][sec], dflt["tables"][sec], sec)
    walk(full["agg"], dflt["agg"], "aggregate")


def judge_sums(res, findings, counts, feats):
    tables = res["tables"]
    agg_want = {}
    n_years_total = set()
    for sec, t in tables.items():
        col = {h: i for i, h in enumerate(t["header"])}
        per_year = {}
        straddle = False
        for r in t["rows"]:
            g, _ = ref.parse_gain_cell(r[col["Cap. Gain"]])
            if g is not None:
                y = int(r[col["Settl. Date"]][:4])
                per_year[y] = per_year.get(y, Fraction(0)) + g
                if r[col["Trade Date"]][:4] != r[col["Settl. Date"]][:4]:
                    straddle = True
        labels = t["footer"][8].split("\n")
        vals = t["footer"][9].split("\n")
        foot = dict(zip(labels, vals))
        errored = bool(t["errors"])
        counts["footers"] = counts.get("footers", 0) + 1
        if errored:
            feats.add("has_rejected_security")
            continue    # C04 owns what a rejected security shows
        if straddle:
            feats.add("year_straddling_sale")
        if len(labels) != len(vals) or any(ref.money(v) is None for v in vals if labels != [""]):
            findings.append({"what": "footer labels and figures do not line up", "where": sec, "labels": labels, "figures": vals})
            continue
        total = ref.money(foot.get("Total", "$0"))
        years = {int(k): ref.money(v) for k, v in foot.items() if k != "Total"}
        n_years_total |= set(years)
        for y in set(per_year) | set(years):
            a = per_year.get(y)
            b = years.get(y)
            if a is None or b is None or abs(a - b) > SUM_TOL:
                findings.append({"what": "yearly figure under a table is not the sum of its rows settling that year",
                                 "where": sec, "year": y, "rows_sum": str(a), "footer": str(b)})
                break
        if abs(total - sum(years.values(), Fraction(0))) > SUM_TOL:
            findings.append({"what": "table total is not the sum of its years", "where": sec,
                             "total": str(total), "years_sum": str(sum(years.values(), Fraction(0)))})
        for y, v in per_year.items():
            agg_want[y] = agg_want.get(y, Fraction(0)) + v
    got = {}
    since = None
    for r in res["agg"]["rows"]:
        if r[0] == "Since inception":
            since = ref.money(r[1])
        else:
            got[int(r[0])] = ref.money(r[1])
    counts["aggregates"] = counts.get("aggregates", 0) + 1
    for y in set(agg_want) | set(got):
        a = agg_want.get(y)
        b = got.get(y)
        if a is None or b is None or abs(a - b) > SUM_TOL:
            findings.append({"what": "aggregate yearly figure is not the sum over the securities that completed",
                             "year": y, "securities_sum": str(a), "aggregate": str(b)})
            break
    if since is None or abs(since - sum(got.values(), Fraction(0))) > SUM_TOL:
        findings.append({"what": "'Since inception' is not the sum of its years", "since": str(since),
                         "years_sum": str(sum(got.values(), Fraction(0)))})
    if len(n_years_total) >= 3 and len(tables) >= 2:
        feats.add("multi_year_multi_sec")
    return len(n_years_total)


def judge(h, rf, rd):
    out = {"unjudged": False, "findings": [], "feats": set(h.get("features", [])), "counts": {}, "nontrivial": False}
    for r in (rf, rd):
        if "panic" in r or "crash" in r or "hang" in r or not r.get("ok"):
            out["unjudged"] = True
            return out
    try:
        judge_sums(rf, out["findings"], out["counts"], out["feats"])
        judge_tables(rf, rd, out["findings"], out["counts"])
    except ValueError as e:
        out["findings"].append({"what": "unparsable cell", "err": str(e)})
    out["nontrivial"] = ("multi_year_multi_sec" in out["feats"] and "year_straddling_sale" in out["feats"])
    return out


def _worker(shard):
    cases = []
    for cid, name, h in shard:
        cases.append(history_to_case(cid + "F", h, full=True))
        cases.append(history_to_case(cid + "D", h, full=False))
    res = common.run_harness("app", cases, tag="c06", nproc=1)
    out = []
    for cid, name, h in shard:
        j = judge(h, res.get(cid + "F", {"crash": 1}), res.get(cid + "D", {"crash": 1}))
        j["cid"] = cid
        j["name"] = name
        j["feats"] = sorted(j["feats"])
        if j["findings"]:
            j["history"] = h
        elif len(out) < 1:
            j["sample"] = {"name": name, "csv": gen.rows_to_csv(h["rows"], gen.used_cols(h["rows"]))[:1200]}
        out.append(j)
    return out


# ---------------------------------------------------------------------------------------
# text and CSV-directory outputs of the real binary carry the same cells as the render model

def cli_compare(h, idx, findings, counts):
    wd = os.path.join(common.WORK, "c06cli-%d-%d" % (os.getpid(), idx))
    os.makedirs(wd, exist_ok=True)
    try:
        inp = os.path.join(wd, "in.csv")
        with open(inp, "w") as f:
            f.write(gen.rows_to_csv(h["rows"], gen.used_cols(h["rows"])))
        init = []
        for a in gen.init_args(h.get("init", {})):
            init += ["-b", a]
        for full in (True, False):
            model = common.run_harness("app", [history_to_case("m", h, full=full)], tag="c06m%d" % idx, nproc=1)["m"]
            if not model.get("ok"):
                return
            outdir = os.path.join(wd, "out%d" % full)
            args = [inp, "-d", outdir] + init + (["--print-full-values"] if full else [])
            r = common.run_cli("acb", args, home=wd)
            if r["rc"] != 0:
                findings.append({"what": "acb --csv-output-dir failed where the library succeeded", "rc": r["rc"],
                                 "stderr": r["err"][-300:].decode("utf-8", "replace")})
                return
            for sec, t in list(model["tables"].items()) + [("aggregate-gains", model["agg"])]:
                p = os.path.join(outdir, sec + ".csv")
                if not os.path.exists(p):
                    findings.append({"what": "CSV output file missing", "file": sec + ".csv"})
                    return
                with open(p, newline="") as f:
                    got = list(csv.reader(f))
                want = [t["header"]] + t["rows"] + ([t["footer"]] if t["footer"] else [])
                for n in t["notes"]:
                    want.append([n] + [""] * (len(t["header"]) - 1))
                counts["csv_files"] = counts.get("csv_files", 0) + 1
                if got != want:
                    findings.append({"what": "CSV-directory output differs from the render model", "file": sec + ".csv",
                                     "first_diff": next(((a, b) for a, b in zip(got, want) if a != b), (len(got), len(want)))})
                    return
            # text mode: every total of the render model must appear in stdout
            args = [inp] + init + (["--print-full-values"] if full else [])
            r = common.run_cli("acb", args, home=wd)
            if r["rc"] != 0:
                findings.append({"what": "acb text mode failed where the library succeeded", "rc": r["rc"]})
                return
            text = r["out"].decode("utf-8", "replace")
            counts["text_runs"] = counts.get("text_runs", 0) + 1
            for row in model["agg"]["rows"]:
                if row[1] not in text or row[0] not in text:
                    findings.append({"what": "aggregate figure of the render model not present in text output", "row": row})
                    return
            for sec, t in model["tables"].items():
                for line in t["footer"][9].split("\n"):
                    if line not in text:
                        findings.append({"what": "footer figure of the render model not present in text output",
                                         "sec": sec, "value": line})
                        return
                for rrow in t["rows"][:50]:
                    for c in rrow:
                        for frag in c.split("\n"):
                            if frag and frag not in text:
                                findings.append({"what": "table cell of the render model not present in text output",
                                                 "sec": sec, "cell": frag})
                                return
    finally:
        common.cleanup(wd)


def run(tier):
    seed = common.seed()
    common.build(bins=True)
    V = Verdict(PROP, tier)
    V.rule = ("random 2-6 security histories spanning many years (rejected securities and registered affiliates included) + a year-end family "
              "(sales trading in December and settling in January, half-cent gains of both signs); each history is rendered with and without full "
              "precision; non-trivial = >=3 years and >=2 securities and >=1 year-straddling sale; a sample is also run through the real binary "
              "in text and --csv-output-dir modes")
    n = {"quick": 1200, "thorough": 60000}[tier]
    pop = []
    rng = common.rng_for(seed, PROP, "ye")
    for name, hh in year_end_family(rng, 400 if tier == "quick" else 15000):
        pop.append((common.case_id(seed, PROP, "ye", len(pop)), name, hh))
    for i in range(n):
        rng = common.rng_for(seed, PROP, i)
        hh = gen.HistoryGen(rng, profile(rng)).gen()
        pop.append((common.case_id(seed, PROP, i), "random #%d" % i, hh))
    nshards = common.NPROC * 4
    shards = [s for s in (pop[i::nshards] for i in range(nshards)) if s]
    with multiprocessing.Pool(common.NPROC) as pool:
        parts = pool.map(_worker, shards)
    totals = {}
    feats = {}
    for part in parts:
        for j in part:
            V.count()
            if j["unjudged"]:
                V.unjudged += 1
                continue
            for k, v in j["counts"].items():
                totals[k] = totals.get(k, 0) + v
            for f in j["feats"]:
                feats[f] = feats.get(f, 0) + 1
            if j["nontrivial"]:
                V.nontriv(j["cid"])
            if "sample" in j:
                V.sample(j["sample"])
            for f in j["findings"][:1]:
                V.violation("%s [%s]" % (json.dumps(f)[:400], j["name"]),
                            {"kind": "history", "prop": PROP, "name": j["name"], "history": j["history"], "finding": f},
                            {"what": f["what"]})
    # CLI sample
    k = 24 if tier == "quick" else 300
    sample = pop[:k // 2] + pop[-k // 2:]
    cli_counts = {}
    def one(args):
        i, (cid, name, h) = args
        f = []
        c = {}
        cli_compare(h, i, f, c)
        return f, c, name, h
    for f, c, name, h in common.pmap(one, list(enumerate(sample)), nproc=8):
        for kk, v in c.items():
            cli_counts[kk] = cli_counts.get(kk, 0) + v
        for x in f[:1]:
            V.violation("%s [%s, via binary]" % (json.dumps(x)[:400], name),
                        {"kind": "history_cli", "prop": PROP, "name": name, "history": h, "finding": x}, {"what": x["what"]})
    for kk, v in totals.items():
        V.extra["judged_" + kk] = v
    for kk, v in cli_counts.items():
        V.extra["binary_" + kk] = v
    V.extra["features_seen"] = feats
    return V.finish(floor_eval=100, floor_nontrivial=10, floors={"judged_footers": 500, "binary_csv_files": 10})


def replay(rec):
    h = rec["case"]["history"]
    common.build(bins=True)
    res = common.run_harness("app", [history_to_case("F", h, full=True), history_to_case("D", h, full=False)], tag="c06r", nproc=1)
    j = judge(h, res["F"], res["D"])
    f = list(j["findings"])
    c = {}
    cli_compare(h, 0, f, c)
    print(gen.rows_to_csv(h["rows"], gen.used_cols(h["rows"])))
    if j["unjudged"]:
        print("replay: could not be judged")
        return 2
    if f:
        for x in f:
            print("replay finding:", json.dumps(x))
        print("VIOLATION property=%s replay=%s" % (PROP, sys.argv[2]))
        return 1
    print("replay: no finding reproduced")
    return 0


if __name__ == "__main__":
    sys.exit(common.main_dispatch(PROP, run, replay))
