"""C14: an interrupted cache write cannot corrupt exchange rates.

Crash-state enumeration driven by a recorded syscall log of the real write procedure:
 1. a child process performs a real cache miss (RateLoader -> remote -> CsvRatesCache::write_rates)
    under strace; the log restricted to the cache directory is the event history of the write,
    whatever that procedure is (in-place rewrite, temp file + rename, with or without fsync);
 2. from the log, the set of directory states a crash can leave is derived (process kill: every
    byte prefix of every write; power loss: un-fsynced data may be any prefix, an un-fsynced
    rename may be durable before its data);
 3. each state is materialised and a fresh RateLoader answers look-ups over it; every returned
    rate must be the published one;
 4. the model is validated against real kills injected at each write syscall.
"""
import datetime
import json
import os
import re
import shutil
import subprocess
import sys
from fractions import Fraction

sys.path.insert(0, os.path.dirname(os.path.abspath(__file__)))
import common
import ratesref as rr
from common import Verdict
from c12 import remote_spec

PROP = "C14"
TRACE = "trace=openat,open,creat,write,pwrite64,writev,fsync,fdatasync,rename,renameat,renameat2,unlink,unlinkat,ftruncate,truncate,close,link,linkat"


def harness_run(case, outp, strace_log=None, inject=None, timeout=120):
    inp = outp + ".in"
    with open(inp, "w") as f:
        f.write(json.dumps(case) + "\n")
    cmd = [common.HARNESS_BIN, "rates", outp]
    if strace_log:
        cmd = ["strace", "-f", "-y", "-s", "0", "-e", TRACE] + (["-e", inject] if inject else []) + ["-o", strace_log] + cmd
    env = dict(os.environ, RUST_BACKTRACE="0")
    with open(inp) as fin:
        p = subprocess.run(cmd, stdin=fin, stdout=subprocess.DEVNULL, stderr=subprocess.PIPE, env=env, timeout=timeout)
    res = None
    if os.path.exists(outp):
        with open(outp) as f:
            line = f.readline().strip()
        if line:
            try:
                res = json.loads(line)
            except ValueError:
                res = None
    return p.returncode, res, p.stderr.decode("utf-8", "replace")


ALIASES = {}      # real path of a symlink target outside the cache directory -> path of the link inside it


def _dealias(text):
    for tgt, link in ALIASES.items():
        text = text.replace(tgt, link)
    return text


def parse_strace(log, cache_dir):
    """-> list of ops on files inside cache_dir: dicts with op, name, and details."""
    ops = []
    fdpath = {}
    cd = os.path.realpath(cache_dir)
    pending = {}
    with open(log) as f:
        lines = [_dealias(x) for x in f.readlines()]
    joined = []
    for ln in lines:
        m = re.match(r"^(\d+)\s+(.*)$", ln.rstrip("\n"))
        pid, rest = (m.group(1), m.group(2)) if m else ("0", ln.rstrip("\n"))
        if rest.endswith("<unfinished ...>"):
            pending[pid] = rest[:-len("<unfinished ...>")].rstrip()
            continue
        m2 = re.match(r"^<\.\.\. (\w+) resumed>(.*)$", rest)
        if m2 and pid in pending:
            rest = pending.pop(pid) + m2.group(2)
        joined.append(rest)
    for rest in joined:
        m = re.match(r"^(\w+)\((.*)\)\s+=\s+(-?\d+)(<([^>]*)>)?", rest)
        if not m:
            continue
        call, args, ret, _, retpath = m.group(1), m.group(2), int(m.group(3)), m.group(4), m.group(5)
        if ret < 0:
            continue

        def inside(p):
            # the directory decides (the last component may itself be a symbolic link)
            return p is not None and os.path.realpath(os.path.dirname(p)) == cd
        if call in ("openat", "open", "creat"):
            pm = re.search(r'"([^"]*)"', args)
            path = retpath or (pm.group(1) if pm else None)
            if inside(path) and ("O_WRONLY" in args or "O_RDWR" in args or call == "creat"):
                ops.append({"op": "open", "name": os.path.basename(path), "trunc": "O_TRUNC" in args or call == "creat",
                            "creat": "O_CREAT" in args or call == "creat", "append": "O_APPEND" in args, "excl": "O_EXCL" in args})
        elif call in ("write", "pwrite64", "writev"):
            pm = re.match(r"^(\d+)<([^>]*)>", args)
            if pm and inside(pm.group(2)):
                off = None
                if call == "pwrite64":
                    om = re.search(r",\s*(\d+)\s*$", args)
                    off = int(om.group(1)) if om else None
                ops.append({"op": "write", "name": os.path.basename(pm.group(2)), "n": ret, "offset": off})
        elif call in ("fsync", "fdatasync"):
            pm = re.match(r"^(\d+)<([^>]*)>", args)
            if pm:
                p = pm.group(2)
                if inside(p):
                    ops.append({"op": "fsync", "name": os.path.basename(p)})
                elif os.path.realpath(p) == cd:
                    ops.append({"op": "fsync_dir"})
        elif call in ("rename", "renameat", "renameat2"):
            names = re.findall(r'"([^"]*)"', args)
            if len(names) >= 2 and (inside(names[0]) or inside(names[1])):
                ops.append({"op": "rename", "src": os.path.basename(names[0]), "dst": os.path.basename(names[1])})
        elif call in ("unlink", "unlinkat"):
            names = re.findall(r'"([^"]*)"', args)
            if names and inside(names[-1]):
                ops.append({"op": "unlink", "name": os.path.basename(names[-1])})
        elif call in ("ftruncate", "truncate"):
            pm = re.match(r"^(\d+)<([^>]*)>,\s*(\d+)", args)
            if pm and inside(pm.group(2)):
                ops.append({"op": "truncate", "name": os.path.basename(pm.group(2)), "len": int(pm.group(3))})
        elif call in ("link", "linkat"):
            names = re.findall(r'"([^"]*)"', args)
            if len(names) >= 2 and inside(names[1]):
                ops.append({"op": "link", "src": os.path.basename(names[0]), "dst": os.path.basename(names[1])})
        elif call == "close":
            pm = re.match(r"^(\d+)<([^>]*)>", args)
            if pm and inside(pm.group(2)):
                ops.append({"op": "close", "name": os.path.basename(pm.group(2))})
    return ops


class FsModel:
    """Visible state (what a running process sees) plus, per file, how much of it is durable."""

    def __init__(self, files):
        self.vis = dict(files)                 # name -> bytes
        self.dur = dict(files)                 # name -> bytes known durable (as of last fsync / initial)
        self.pos = {}                          # name -> write offset
        self.dirty_names = set()               # names whose directory entry changed without a dir fsync
        self.dur_names = {n: n for n in files}  # durable directory: name -> which durable content key


def crash_states(old_files, final_files, ops, byte_step, links=()):
    """Enumerates crash states. Returns list of (label, {name: bytes}, model) where model in {'kill','power'}.
    File contents of writes are taken from the final files (writes are sequential)."""
    states = []
    seen = set()

    def add(label, files, model):
        key = (model == "kill", tuple(sorted((n, c) for n, c in files.items())))
        k2 = tuple(sorted((n, c) for n, c in files.items()))
        if k2 in seen:
            return
        seen.add(k2)
        states.append((label, dict(files), model))

    vis = dict(old_files)
    # names that are hard links to one file share its content: gid[name] identifies the file
    gid = {}
    for k_, grp in enumerate(links):
        for n_ in grp:
            gid[n_] = "L%d" % k_
    for n_ in vis:
        gid.setdefault(n_, "F" + n_)
    fresh = [0]

    def members(n):
        g = gid.get(n)
        return [m for m in vis if gid.get(m) == g] if g is not None else [n]

    def setc(files, n, content):
        for m in (members(n) or [n]):
            files[m] = content
        files[n] = content
    pos = {}
    synced = dict(old_files)          # last content known durable per name
    content_src = {}                  # name -> final content the writes produce (resolved through renames)
    # resolve what bytes each written name ends up with: follow renames forward
    alias = {}
    for o in ops:
        if o["op"] == "rename":
            alias[o["src"]] = o["dst"]

    def final_content(name):
        n = name
        hops = 0
        while n in alias and n not in final_files and hops < 5:
            n = alias[n]
            hops += 1
        if name in final_files:
            return final_files[name]
        return final_files.get(n, b"")

    add("before the write procedure", vis, "kill")
    unsynced_rename = []
    for i, o in enumerate(ops):
        if o["op"] == "open":
            n = o["name"]
            if o["trunc"] or n not in vis:
                if n not in vis:
                    fresh[0] += 1
                    gid[n] = "N%d" % fresh[0]
                setc(vis, n, b"")
            pos[n] = len(vis[n]) if o["append"] else 0
            add("after open(%s)%s" % (n, " O_TRUNC" if o["trunc"] else ""), vis, "kill")
        elif o["op"] == "write":
            n = o["name"]
            src = final_content(n)
            start = o["offset"] if o["offset"] is not None else pos.get(n, 0)
            data = src[start:start + o["n"]]
            base = vis.get(n, b"")
            step = byte_step(len(data))
            cuts = sorted(set(list(range(0, len(data) + 1, step)) + [len(data)] + boundary_offsets(data)))
            for c in cuts:
                newc = base[:start] + data[:c] + base[start + c:]
                tmp = dict(vis)
                setc(tmp, n, newc)
                add("write #%d to %s cut at byte %d" % (i, n, start + c), tmp, "kill")
            setc(vis, n, base[:start] + data + base[start + len(data):])
            pos[n] = start + len(data)
        elif o["op"] == "truncate":
            n = o["name"]
            setc(vis, n, vis.get(n, b"")[:o["len"]])
            add("after truncate(%s,%d)" % (n, o["len"]), vis, "kill")
        elif o["op"] == "fsync":
            synced[o["name"]] = vis.get(o["name"], b"")
        elif o["op"] == "rename":
            s, d = o["src"], o["dst"]
            if s in vis and d in vis and gid.get(s) == gid.get(d):
                pass          # both names are links to the same file: rename() does nothing and both names stay
            elif s in vis:
                # power loss: the rename can reach the disk before the source's data does
                if synced.get(s) != vis[s]:
                    src = vis[s]
                    step = byte_step(len(src))
                    for c in sorted(set(list(range(0, len(src) + 1, step)) + boundary_offsets(src))):
                        tmp = dict(vis)
                        del tmp[s]
                        tmp[d] = src[:c]
                        add("power loss: rename %s->%s durable, data only up to byte %d (no fsync before rename)" % (s, d, c), tmp, "power")
                vis[d] = vis.pop(s)
                gid[d] = gid.pop(s, "F" + d)
                synced[d] = synced.pop(s, None)
            add("after rename(%s,%s)" % (s, d), vis, "kill")
        elif o["op"] == "unlink":
            vis.pop(o["name"], None)
            gid.pop(o["name"], None)
            add("after unlink(%s)" % o["name"], vis, "kill")
        elif o["op"] == "link":
            if o["src"] in vis:
                vis[o["dst"]] = vis[o["src"]]
                gid[o["dst"]] = gid[o["src"]]
            add("after link(%s,%s)" % (o["src"], o["dst"]), vis, "kill")
        # power loss at this point: every file with un-fsynced data may hold any prefix of what was written since
        for n, c in list(vis.items()):
            if synced.get(n) != c:
                base_old = old_files.get(n)
                step = byte_step(len(c))
                for cut in sorted(set(list(range(0, len(c) + 1, max(step, 1))) + boundary_offsets(c))):
                    tmp = dict(vis)
                    tmp[n] = c[:cut]
                    add("power loss after op #%d: %s holds only %d un-fsynced bytes" % (i, n, cut), tmp, "power")
                if base_old is not None:
                    tmp = dict(vis)
                    tmp[n] = base_old
                    add("power loss after op #%d: truncation/overwrite of %s not durable" % (i, n), tmp, "power")
    add("after the write procedure", vis, "kill")
    return states


def boundary_offsets(data):
    """Row boundaries +-3 bytes, and the first and last 200 offsets."""
    out = set()
    i = -1
    while True:
        i = data.find(b"\n", i + 1)
        if i < 0:
            break
        for k in range(-3, 4):
            if 0 <= i + k <= len(data):
                out.add(i + k)
    for k in range(0, min(200, len(data) + 1)):
        out.add(k)
        out.add(len(data) - k)
    return sorted(x for x in out if 0 <= x <= len(data))


def rates_from_bytes(b):
    rows = {}
    for line in b.decode("utf-8", "replace").split("\n"):
        p = line.strip().split(",")
        if len(p) >= 2:
            rows[p[0]] = p[1]
    return rows


def lookups_for_state(rng, files, year, new_rows, today, written=()):
    """Dates around where this state's files (the live file and whatever the write procedure wrote to) end / differ,
    plus fixed and random ones."""
    dates = set()
    name = "rates-%d.csv" % year
    d0 = datetime.date(year, 1, 1)
    for c in [files.get(nm) for nm in [name] + sorted(set(written) - {name})]:
        if c is None:
            continue
        txt = c.decode("utf-8", "replace")
        last_line = txt.rstrip("\n").split("\n")[-1] if txt.strip() else ""
        m = re.match(r"^(\d{4}-\d{2}-\d{2})", last_line)
        if m:
            try:
                ld = datetime.date.fromisoformat(m.group(1))
                for k in (-2, -1, 0, 1, 2, 3):
                    dates.add(ld + datetime.timedelta(days=k))
            except ValueError:
                pass
        # rows that differ from the full new content
        have = rates_from_bytes(c)
        diff = [k for k, v in have.items() if new_rows.get(k) != v]
        for k in diff[:4]:
            try:
                dd = datetime.date.fromisoformat(k)
                dates.add(dd)
                dates.add(dd + datetime.timedelta(days=1))
            except ValueError:
                pass
    dates.add(d0 + datetime.timedelta(days=3))
    dates.add(today - datetime.timedelta(days=1))
    dates.add(today - datetime.timedelta(days=3))
    for _ in range(3):
        dates.add(d0 + datetime.timedelta(days=rng.randint(0, max(1, (today - d0).days - 1))))
    return sorted(d for d in dates if d0 - datetime.timedelta(days=5) <= d < today)


def scenario(rng, idx):
    year = rng.choice([2015, 2016, 2018, 2019, 2021, 2022, 2023])
    cal = rr.gen_calendar(rng, year - 1, year)
    t1 = datetime.date(year, rng.randint(2, 11), rng.randint(1, 28))
    t2 = t1 + datetime.timedelta(days=rng.choice([1, 3, 10, 30]))
    t3 = t2 + datetime.timedelta(days=rng.choice([0, 1, 5]))
    # an observation that was not available at t1 and is later (late publication)
    late = None
    if rng.random() < 0.5:
        cands = [d for d in cal.published if d.year == year and d < t1 - datetime.timedelta(days=3)]
        if cands:
            late = rng.choice(cands)
    return {"year": year, "cal": cal, "t1": t1, "t2": t2, "t3": t3, "late": late, "debris": idx % 4 == 1, "cold": idx % 4 == 2, "symlink": idx % 4 == 3}


def run_scenario(V, sc, idx, wd, tier, rng):
    year, cal = sc["year"], sc["cal"]
    sdir = os.path.join(wd, "s%d" % idx)
    cache = os.path.join(sdir, "cache")
    os.makedirs(cache)
    vis1 = cal.restricted(sc["t1"])
    if sc["late"]:
        vis1.published.pop(sc["late"], None)
    vis2 = cal.restricted(sc["t2"])
    vis3 = cal.restricted(sc["t3"])
    # run A: an earlier run leaves the old cache content
    caseA = {"id": "A", "cache": "csv", "dir": cache, "runs": [{"today": sc["t1"].isoformat(), "remote": remote_spec(vis1),
                                                              "lookups": [(sc["t1"] - datetime.timedelta(days=2)).isoformat()]}]}
    if not sc.get("cold"):
        rc, resA, err = harness_run(caseA, os.path.join(sdir, "A.json"))
        if rc != 0 or resA is None:
            raise common.Inconclusive("harness run A failed: %s" % err[-300:])
    # (cold: the very first download of the year is the one that gets interrupted; no live file exists yet)
    # hostile start state: debris of an earlier interrupted write may be lying around (a temporary file
    # longer than what will be written, with rows for the same dates but other values)
    if sc.get("debris"):
        junk = "".join("%s,%s\n" % ((datetime.date(year, 1, 1) + datetime.timedelta(days=k)).isoformat(), "9.9999") for k in range(0, 366))
        for nm in ("rates-%d.csv.tmp" % year, ".rates-%d.csv.tmp" % year, "rates-%d.csv~" % year, "rates-%d.tmp" % year):
            with open(os.path.join(cache, nm), "w") as f:
                f.write(junk + junk[:1234])
    if sc.get("symlink"):
        # the cache file is a symbolic link to a file kept elsewhere (a synced or backed-up folder)
        live0 = os.path.join(cache, "rates-%d.csv" % year)
        if os.path.exists(live0):
            os.makedirs(os.path.join(sdir, "elsewhere"))
            shutil.move(live0, os.path.join(sdir, "elsewhere", "rates-%d.csv" % year))
            os.symlink(os.path.join(sdir, "elsewhere", "rates-%d.csv" % year), live0)
            # strace -y reports descriptors by their resolved path: read writes through the link as writes to the link
            ALIASES[os.path.realpath(os.path.join(sdir, "elsewhere", "rates-%d.csv" % year))] = os.path.join(os.path.realpath(cache), "rates-%d.csv" % year)
    old_files = {n: open(os.path.join(cache, n), "rb").read() for n in os.listdir(cache)}
    old_inodes = {n: os.stat(os.path.join(cache, n)).st_ino for n in old_files}       # before the traced run changes anything
    # run B under strace: a look-up newer than the cache forces a download and a rewrite
    target = sc["t2"] - datetime.timedelta(days=1)
    caseB = {"id": "B", "cache": "csv", "dir": cache, "runs": [{"today": sc["t2"].isoformat(), "remote": remote_spec(vis2), "lookups": [target.isoformat()]}]}
    log = os.path.join(sdir, "strace.log")
    rc, resB, err = harness_run(caseB, os.path.join(sdir, "B.json"), strace_log=log)
    if rc != 0 or resB is None:
        raise common.Inconclusive("strace run failed (ptrace unavailable?): %s" % err[-300:])
    evs = resB["runs"][0]["events"]
    if not any(e["ev"] == "cache_write" and e["year"] == year for e in evs):
        raise common.Inconclusive("the traced run did not write the cache")
    final_files = {n: open(os.path.join(cache, n), "rb").read() for n in os.listdir(cache)}
    ops = parse_strace(log, cache)
    if not any(o["op"] == "write" for o in ops):
        raise common.Inconclusive("no write syscall to the cache directory was recorded")
    V.bump("syscalls_in_write_procedure", len(ops))
    proc = " -> ".join("%s(%s)" % (o["op"], o.get("name", o.get("src", ""))) + ("[O_TRUNC]" if o.get("trunc") else "") for o in ops)
    V.extra.setdefault("observed_write_procedures", [])
    short = re.sub(r"(write\([^)]*\) -> )+", "write* -> ", proc)
    if short not in V.extra["observed_write_procedures"]:
        V.extra["observed_write_procedures"].append(short)
    live = "rates-%d.csv" % year
    size = len(final_files.get(live, b""))
    full = tier == "thorough"
    byte_step = (lambda n: 1) if full else (lambda n: max(1, n // 300))
    by_ino = {}
    for n_, ino_ in old_inodes.items():
        by_ino.setdefault(ino_, set()).add(n_)
    links = [g for g in by_ino.values() if len(g) > 1]
    if links:
        V.bump("start_states_with_hard_links")
    states = crash_states(old_files, final_files, ops, byte_step, links)
    new_rows = rates_from_bytes(final_files.get(live, b""))
    # materialise and query
    cases = []
    plan = {}
    for si, (label, files, model) in enumerate(states):
        d = os.path.join(sdir, "st%06d" % si)
        os.makedirs(d)
        for n, c in files.items():
            with open(os.path.join(d, n), "wb") as f:
                f.write(c)
        dates = lookups_for_state(rng, files, year, new_rows, sc["t3"], written={o["name"] for o in ops if o["op"] == "write"})
        cid = "s%d-%06d" % (idx, si)
        # half of the later runs cannot download (no network): then only "refuse" or "the published rate" remain
        offline = rng.random() < 0.5
        cases.append({"id": cid, "cache": "csv", "dir": d,
                      "runs": [{"today": sc["t3"].isoformat(), "remote": None if offline else remote_spec(vis3), "lookups": [x.isoformat() for x in dates]}]})
        plan[cid] = (label, files, model, dates)
        V.bump("later_runs_offline" if offline else "later_runs_online")
    res = common.run_harness("rates", cases, tag="c14-%d" % idx)
    # Reference answers of the two uncrashed states (old cache left alone; write completed) for every date
    # asked anywhere: a "wrong day" answer is attributed to the crash only if neither of them gives it.
    all_dates = sorted({d for (_, _, _, ds) in plan.values() for d in ds})
    ref_cases = []
    for tag, files in (("old", old_files), ("new", final_files)):
        d = os.path.join(sdir, "ref-" + tag)
        os.makedirs(d)
        for n, c in files.items():
            with open(os.path.join(d, n), "wb") as f:
                f.write(c)
        for j, dd in enumerate(all_dates):
            dj = os.path.join(sdir, "ref-%s-%d" % (tag, j))
            shutil.copytree(d, dj)
            ref_cases.append({"id": "ref-%s-%s" % (tag, dd.isoformat()), "cache": "csv", "dir": dj,
                              "runs": [{"today": sc["t3"].isoformat(), "remote": remote_spec(vis3), "lookups": [dd.isoformat()]}]})
    ref_res = common.run_harness("rates", ref_cases, tag="c14ref-%d" % idx)
    uncrashed = {}
    for rc_ in ref_cases:
        rr_ = ref_res.get(rc_["id"], {})
        if "runs" in rr_ and rr_["runs"][0]["lookups"]:
            lk0 = rr_["runs"][0]["lookups"][0]
            uncrashed.setdefault(lk0["date"], set()).add((lk0.get("rate_date"), lk0.get("rate")))
        shutil.rmtree(rc_["dir"], ignore_errors=True)
    n_bad = 0
    for c in cases:
        label, files, model, dates = plan[c["id"]]
        V.count()
        r = res.get(c["id"], {})
        V.bump("crash_states_" + model)
        if "panic" in r:
            V.violation("after a crash (%s; %s model) the later run panicked: %s" % (label, model, json.dumps(r["panic"])[:200]),
                        {"kind": "crash_state", "prop": PROP, "label": label, "model": model,
                         "files_hex": {n: cc.hex() for n, cc in files.items()}, "today": sc["t3"].isoformat()},
                        {"what": "later run panicked on a crash state"})
            shutil.rmtree(c["dir"], ignore_errors=True)
            continue
        if "runs" not in r:
            V.unjudged += 1
            continue
        V.nontriv((idx, label))
        for d, lk in zip(dates, r["runs"][0]["lookups"]):
            V.bump("post_crash_lookups")
            exp = rr.expected(vis3, d, sc["t3"])
            if "err" in lk:
                V.bump("post_crash_errors")
                continue
            got_d, got_r = rr.D(lk["rate_date"]), Fraction(lk["rate"])
            pub = vis3.rate(got_d)
            bad = None
            if pub is None or abs(got_r - pub) > Fraction(1, 10 ** 20) * pub:
                bad = "a rate that was never published for %s" % got_d
            elif exp[0] == "err" or exp[1] != got_d:
                if (lk["rate_date"], lk["rate"]) in uncrashed.get(d.isoformat(), set()):
                    # the uncrashed cache answers the same: not an effect of the interruption (eg. a
                    # placeholder cached before a late publication); outside this property
                    V.bump("same_answer_as_uncrashed_cache")
                    continue
                bad = "the rate of %s although %s" % (got_d, "no rate applies" if exp[0] == "err" else "the rate of %s applies" % exp[1])
            if bad:
                n_bad += 1
                if n_bad <= 3:
                    V.violation("after a crash (%s; %s model) the look-up of %s uses %s: returned %s, published %s"
                                % (label, model, d, bad, lk["rate"], str(pub)),
                                {"kind": "crash_state", "prop": PROP, "label": label, "model": model,
                                 "files": {n: cc.decode("utf-8", "replace")[-400:] for n, cc in files.items()},
                                 "files_hex": {n: cc.hex() for n, cc in files.items()},
                                 "lookup": d.isoformat(), "today": sc["t3"].isoformat(), "remote": remote_spec(vis3),
                                 "expected": [str(x) for x in exp], "returned": [lk["rate_date"], lk["rate"]]},
                                {"what": "wrong rate after crash", "model": model})
                else:
                    V.bump("further_violations_same_scenario")
                break
        shutil.rmtree(c["dir"], ignore_errors=True)
    # model validation: really kill the child at each write syscall and compare with the model
    n_writes = sum(1 for o in ops if o["op"] == "write")
    for k in range(1, n_writes + 1):
        kd = os.path.join(sdir, "kill%d" % k)
        shutil.rmtree(kd, ignore_errors=True)
        os.makedirs(kd)
        for n, c in old_files.items():
            with open(os.path.join(kd, n), "wb") as f:
                f.write(c)
        caseK = dict(caseB, dir=kd)
        # the k-th write *to the cache file*: count only writes whose fd is in the cache dir via -P
        rc, _, err = harness_run(caseK, os.path.join(sdir, "K%d.json" % k), strace_log=os.path.join(sdir, "k%d.log" % k),
                                 inject="inject=write:signal=SIGKILL:when=%d" % (k + writes_before_cache(log, cache)))
        real = {n: open(os.path.join(kd, n), "rb").read() for n in os.listdir(kd)}
        modelled = any(files == real for _, files, m in states)
        V.bump("real_kills_performed")
        if modelled:
            V.bump("real_kills_matching_a_modelled_state")
        else:
            V.extra.setdefault("real_kill_states_not_in_model", []).append({"k": k, "files": {n: len(c) for n, c in real.items()}})
    V.sample({"write_procedure": short, "year_file_bytes": size, "states": len(states), "old_bytes": len(old_files.get(live, b""))}, cap=3)


def writes_before_cache(log, cache_dir):
    """Number of write syscalls (any fd) that precede the first write into the cache directory."""
    n = 0
    cd = os.path.realpath(cache_dir)
    with open(log) as f:
        for ln in f:
            ln = _dealias(ln)
            if re.search(r"\bwrite\(", ln) and "resumed" not in ln:
                m = re.search(r"write\((\d+)<([^>]*)>", ln)
                if m and os.path.realpath(os.path.dirname(m.group(2))) == cd:
                    return n
                n += 1
    return n


def run(tier):
    seed = common.seed()
    common.build()
    if shutil.which("strace") is None:
        raise common.Inconclusive("strace is not installed")
    V = Verdict(PROP, tier, level="fault_enumeration")
    V.rule = ("crash states derived from the strace log of a real cache rewrite (start states in rotation: old content from an earlier run; the same plus "
              "debris of an earlier interrupted write; a cold cache directory whose first download is interrupted; a cache file that is a symbolic link): process-kill states = every "
              "syscall boundary and byte cuts inside every write; power-loss states = additionally any prefix of un-fsynced data, a not-yet-durable "
              "truncation, and a rename durable before its un-fsynced data. quick: all row boundaries +-3 bytes, the first and last 200 offsets and ~300 "
              "evenly spaced offsets of 4 year contents; thorough: every byte offset of 12 year contents. Each state is queried by a fresh RateLoader "
              "(dates around the cut, rows that differ from the complete file, first/last dates, random). non-trivial = distinct (scenario, crash state)")
    V.assumptions = ["ordered-prefix persistence inside one file (no block reordering)", "a crashed writer leaves no other process writing the same file",
                     "the syscall log of one run is representative of the write procedure (it is deterministic code)"]
    n = {"quick": 4, "thorough": 12}[tier]
    wd = common.workdir("c14")
    try:
        inconclusive = []
        for i in range(n):
            rng = common.rng_for(seed, PROP, i)
            sc = scenario(rng, i)
            try:
                run_scenario(V, sc, i, wd, tier, rng)
            except common.Inconclusive as e:
                inconclusive.append("scenario %d: %s" % (i, e))      # the other scenarios still count; a violation found elsewhere stands
        V.extra["inconclusive_scenarios"] = inconclusive
        if inconclusive and not V.violations:
            raise common.Inconclusive("; ".join(inconclusive))
        V.exhaustive = (tier == "thorough")
    finally:
        common.cleanup(wd)
    return V.finish(floor_eval=200, floor_nontrivial=100, floors={"post_crash_lookups": 1000, "real_kills_matching_a_modelled_state": 1})


def replay(rec):
    c = rec["case"]
    common.build()
    wd = common.workdir("c14r")
    try:
        d = os.path.join(wd, "cache")
        os.makedirs(d)
        for n, hx in c["files_hex"].items():
            with open(os.path.join(d, n), "wb") as f:
                f.write(bytes.fromhex(hx))
        case = {"id": "r", "cache": "csv", "dir": d, "runs": [{"today": c["today"], "remote": c["remote"], "lookups": [c["lookup"]]}]}
        r = common.run_harness("rates", [case], tag="c14r", nproc=1)["r"]
        lk = r["runs"][0]["lookups"][0]
        print("crash state:", c["label"], "| model:", c["model"])
        for n, t in c["files"].items():
            print("  tail of %s: %r" % (n, t[-120:]))
        print("look-up:", json.dumps(lk)[:400], "expected:", c["expected"])
        if [lk.get("rate_date"), lk.get("rate")] == c["returned"]:
            print("VIOLATION property=%s replay=%s" % (PROP, sys.argv[2]))
            return 1
        print("replay: not reproduced")
        return 0
    finally:
        common.cleanup(wd)


if __name__ == "__main__":
    sys.exit(common.main_dispatch(PROP, run, replay))
