"""C05, peripheral front ends: tx-export-convert on hostile spreadsheets, etrade-plan-pdf-tx-extract on
mutated confirmation texts, the statement-FMV text parser on mutated pages. Same monitor as c05.py:
no panic / abort / hang; a failure carries a diagnostic naming a file, row or security."""
import json
import os
import re
import sys

sys.path.insert(0, os.path.dirname(os.path.abspath(__file__)))
import common
import c18
import c19
import c20

PROP = "C05"


def hostile_sheet(rng, idx):
    acts, accounts = c18.gen_export(rng)
    rows = c18.layout_rows(rng, acts, rng.choice(["default", "permuted", "blank_header", "numeric_header"]))
    kind = rng.choice(["ok", "empty_sheet", "header_only", "drop_col", "dup_header", "wrong_types", "error_cells", "blank_rows", "junk_dates", "huge",
                       "two_sheets", "no_header", "ragged", "unpaired_fxt", "bad_fxt", "text_numbers_junk", "bool_cells"])
    sheets = [{"name": "Activities", "rows": rows}]
    args = {}
    if len(accounts) > 1:
        args["account"] = "."
    if kind == "empty_sheet":
        sheets = [{"name": "Activities", "rows": []}]
    elif kind == "header_only":
        sheets = [{"name": "Activities", "rows": rows[:1]}]
    elif kind == "drop_col":
        j = rng.randrange(len(rows[0]))
        sheets = [{"name": "Activities", "rows": [r[:j] + r[j + 1:] for r in rows]}]
    elif kind == "dup_header":
        rows[0].append(rng.choice([c for c in rows[0] if c]))
        for r in rows[1:]:
            r.append({"s": "dup"})
    elif kind == "wrong_types":
        for r in rows[1:]:
            j = rng.randrange(len(r))
            r[j] = rng.choice([{"s": "abc"}, {"n": "-1e308"}, {"b": True}, None, {"n": "1e-300"}, {"s": ""}, {"n": "NaN"} if False else {"n": "0"}])
    elif kind == "error_cells":
        for r in rows[1:]:
            if rng.random() < 0.5:
                r[rng.randrange(len(r))] = {"f": "=1/0", "r": "#DIV/0!"}
    elif kind == "blank_rows":
        rows.insert(rng.randint(1, len(rows)), [None] * len(rows[0]))
        rows.append([None] * len(rows[0]))
    elif kind == "junk_dates":
        for r in rows[1:]:
            for j, c in enumerate(r):
                if c and "s" in c and re.match(r"^\d{4}-\d{2}-\d{2}", c["s"]) and rng.random() < 0.4:
                    r[j] = rng.choice([{"s": "2020-13-45 12:00:00 AM"}, {"s": "yesterday"}, {"n": "44000"}, {"s": "0000-00-00"}, None])
    elif kind == "huge":
        for r in rows[1:]:
            for j, c in enumerate(r):
                if c and "n" in c and rng.random() < 0.3:
                    r[j] = {"n": rng.choice(["999999999999", "99999999999.5", "-999999999999.9999", "0.0000000001"])}
    elif kind == "two_sheets":
        sheets.append({"name": "Other", "rows": rows[:2]})
        if rng.random() < 0.5:
            args["sheet"] = rng.choice(["Activities", "Other", "Nope"])
    elif kind == "no_header":
        sheets = [{"name": "Activities", "rows": rows[1:]}]
    elif kind == "ragged":
        sheets = [{"name": "Activities", "rows": [r[:rng.randint(0, len(r))] for r in rows]}]
    elif kind == "unpaired_fxt":
        fx = [i for i, a in enumerate(acts) if a["kind"] == "FXT"]
        if fx:
            del rows[fx[0] + 1]
    elif kind == "bad_fxt":
        for r in rows[1:]:
            for j, c in enumerate(r):
                if c and c.get("s") == "CAD" and rng.random() < 0.5:
                    r[j] = {"s": rng.choice(["USD", "EUR", ""])}
    elif kind == "text_numbers_junk":
        for r in rows[1:]:
            for j, c in enumerate(r):
                if c and "n" in c and rng.random() < 0.3:
                    r[j] = {"s": rng.choice(["1,000.50", "$5", "", " 7 ", "1e3", "--", "٣"])}
    elif kind == "bool_cells":
        for r in rows[1:]:
            r[rng.randrange(len(r))] = {"b": rng.random() < 0.5}
    if rng.random() < 0.1:
        args["security"] = "("       # invalid regex is rejected by the option parser of the binary; harness reports it
        args.pop("security")
    return sheets, args, kind


def mutate_text(rng, text):
    kind = rng.choice(["delete_line", "swap_numbers", "zero_qty", "truncate", "duplicate", "garbage", "empty", "remove_dollar", "long_number", "nul",
                       "reorder_lines", "bad_date", "year_digits", "value_words"])
    lines = text.split("\n")
    if kind == "delete_line" and len(lines) > 3:
        del lines[rng.randrange(len(lines))]
        return "\n".join(lines), kind
    if kind == "swap_numbers":
        nums = list(re.finditer(r"\d+\.\d+", text))
        if len(nums) >= 2:
            a, b = rng.sample(nums, 2)
            if a.start() > b.start():
                a, b = b, a
            return text[:a.start()] + b.group() + text[a.end():b.start()] + a.group() + text[b.end():], kind
    if kind == "zero_qty":
        return re.sub(r"(Shares (Released|Sold|Purchased)[^\d\n]*\(?)\d+\.\d+", r"\g<1>0.0000", text, count=1), kind
    if kind == "truncate":
        return text[:rng.randint(0, len(text))], kind
    if kind == "duplicate":
        return text + "\n" + text, kind
    if kind == "garbage":
        i = rng.randrange(len(text) + 1)
        return text[:i] + rng.choice(["\x00", "$$$", "((((", "�", "9" * 50, "\n\n\n", "Release Date 13-45-2022"]) + text[i:], kind
    if kind == "empty":
        return rng.choice(["", "\n", "unrelated text", "TRADE CONFIRMATION", "STOCK PLAN RELEASE CONFIRMATION", "Plan ESP2", "This transaction is confirmed"]), kind
    if kind == "remove_dollar":
        return text.replace("$", "", rng.randint(1, 5)), kind
    if kind == "long_number":
        return re.sub(r"\d+\.\d+", lambda m: "9" * 40 + ".5" if rng.random() < 0.2 else m.group(), text), kind
    if kind == "nul":
        i = rng.randrange(len(text) + 1)
        return text[:i] + "\x00\x01" + text[i:], kind
    if kind == "reorder_lines":
        rng.shuffle(lines)
        return "\n".join(lines), kind
    if kind == "year_digits":
        # two-digit years written with four digits (and the reverse), years of three digits, non-ASCII digits
        def yy(m):
            y = m.group(3)
            return m.group(1) + m.group(2) + rng.choice(["20" + y if len(y) == 2 else y[2:], "256", "1" + y, "٢٣", y])
        return re.sub(r"(\d\d[-/])(\d\d[-/])(\d\d(?:\d\d)?)\b", yy, text, count=rng.choice([1, 2, 4])), kind
    if kind == "value_words":
        # a labelled row whose value is a word instead of a figure, or a heading that repeats the row names
        t2 = re.sub(r"(Sale Price|Comission/Fee|Exercise Market Value|Shares Exercised|Market Value Per Share|Sale Price Per Share)\s+\$?[\d,.]+",
                    lambda m: m.group(1) + " " + rng.choice(["N/A", "waived", "-", "TBD", ""]), text, count=rng.choice([1, 2]))
        if rng.random() < 0.5:
            t2 = t2.replace("Exercise Details", "Exercise Details\nGrant Number Exercise Market Value Shares Exercised Sale Price Comission/Fee", 1)
        return t2, kind
    if kind == "bad_date":
        return re.sub(r"(\d\d)[-/](\d\d)[-/](\d\d+)", lambda m: rng.choice(["13-32-2022", "00/00/00", "2/30/22", m.group()]), text, count=2), kind
    return text, kind


def attributed_periph(msg, file_names):
    if re.search(r"\brow\s+\d+", msg, re.I):
        return True
    return any(n and n in msg for n in file_names)


def run_into(V, tier, seed):
    wd = common.workdir("c05pfiles")
    try:
        # --- tx-export-convert
        n = {"quick": 600, "thorough": 20000}[tier]
        cases = []
        meta = {}
        for i in range(n):
            rng = common.rng_for(seed, PROP, "xlsx", i)
            sheets, args, kind = hostile_sheet(rng, i)
            cid = "px%06d" % i
            cases.append({"id": cid, "path": os.path.join(wd, cid + ".xlsx"), "sheets": sheets, "args": args})
            meta[cid] = kind
        res = common.run_harness("xlsx", cases, tag="c05px", per_case_timeout=30)
        for c in cases:
            V.count()
            r = res.get(c["id"], {})
            kind = meta[c["id"]]
            payload = {"kind": "xlsx", "case": dict(c, path=None), "mutation": kind}
            if "harness_error" in r:
                V.bump("xlsx_not_writable")
                continue
            V.bump("tx_export_convert_runs")
            if "panic" in r:
                V.violation("tx-export-convert panicked at %s: %s [sheet mutation %s]" % (r["panic"]["loc"], r["panic"]["msg"][:200], kind), payload,
                            {"what": "PANIC", "front": "tx-export-convert", "loc": r["panic"]["loc"], "msg": r["panic"]["msg"], "feat": kind})
            elif "crash" in r or "hang" in r:
                V.violation("tx-export-convert crashed/hung: %s [sheet mutation %s]" % (json.dumps(r)[:200], kind), payload,
                            {"what": "CRASH", "front": "tx-export-convert", "feat": kind})
            elif not r.get("ok"):
                err = r.get("err") or ""
                if not err.strip():
                    V.violation("tx-export-convert failed without a diagnostic [sheet mutation %s]" % kind, payload, {"what": "SILENT", "front": "tx-export-convert"})
                elif not (attributed_periph(err, [os.path.basename(c["path"])]) or "sheet" in err.lower() or "account" in err.lower() or "Workbook" in err):
                    V.violation("tx-export-convert diagnostic names no file, row or sheet: %r [sheet mutation %s]" % (err[:200], kind), payload,
                                {"what": "UNATTRIBUTED", "front": "tx-export-convert", "msg": err[:200]})
                else:
                    V.nontriv(("tx-export-convert", kind, re.sub(r"[0-9]+", "#", err)[:40]))
            else:
                V.nontriv(("tx-export-convert", kind, "report"))
        # --- etrade-plan-pdf-tx-extract
        n = {"quick": 600, "thorough": 20000}[tier]
        cases = []
        meta = {}
        for i in range(n):
            rng = common.rng_for(seed, PROP, "etrade", i)
            sc = c19.gen_scenario(rng)
            files = c19.render_files(rng, sc)
            kinds = []
            out_files = []
            for nm, tx in files:
                if rng.random() < 0.5:
                    tx, k = mutate_text(rng, tx)
                    kinds.append(k)
                out_files.append([nm, tx])
            if rng.random() < 0.1:
                out_files.append(["zz_binary.txt", "", "fffe00d8ff"])     # not valid UTF-8
                kinds.append("invalid_utf8")
            if rng.random() < 0.05:
                # many fills in one matching window (combinatorial search must still terminate)
                extra = []
                for k in range(rng.choice([12, 16, 18])):
                    t = {"sym": "FOO", "td": sc["benefits"][0]["date"], "sd": sc["benefits"][0]["date"], "qty": rng.randint(1, 9),
                         "price": sc["benefits"][0]["fmv"], "comm": None, "fee": c19.Fraction(1, 100), "for": None}
                    extra.append(t)
                sc2 = dict(sc, trades=extra, benefits=[])
                for nm, tx in c19.render_files(rng, sc2):
                    out_files.append(["many_" + nm.replace("/", "_"), tx])
                kinds.append("many_fills")
            # the matcher tries every combination of the sales inside a benefit's window (2^n): keep n where that ends
            # in seconds here; the blow-up itself is probed once, separately, below
            n_sales = sum(len(re.findall(r"Transaction Type: Sold| SELL \d", f[1])) for f in out_files)
            if n_sales > 22:
                out_files = [f for f in out_files if not f[0].startswith("many_")]
                kinds = [k for k in kinds if k != "many_fills"] + ["many_fills_dropped"]
                n_sales = sum(len(re.findall(r"Transaction Type: Sold| SELL \d", f[1])) for f in out_files)
                if n_sales > 22:
                    continue
            cid = "pe%06d" % i
            cases.append({"id": cid, "dir": os.path.join(wd, cid), "files": out_files, "extract_only": rng.random() < 0.1, "pretty": rng.random() < 0.1})
            meta[cid] = ",".join(sorted(set(kinds))) or "unmutated"
        res = common.run_harness("etrade", cases, tag="c05pe", per_case_timeout=60)
        # probe: one RSU with its 2-fill sell-to-cover and 34 more small sales in the same window
        rngp = common.rng_for(seed, "C05", "etrade-probe")
        for _ in range(50):
            scp = c19.gen_scenario(rngp)
            if scp["era"] == "post" and any(b["kind"] == "RSU" and b["sold"] for b in scp["benefits"]):
                break
        b0 = next((b for b in scp["benefits"] if b["kind"] == "RSU" and b["sold"]), None)
        if b0 is not None:
            extra = [{"sym": b0["sym"], "td": b0["date"], "sd": b0["date"], "qty": 1 + (k % 7), "price": b0["fmv"], "comm": None,
                      "fee": c19.Fraction(1, 100), "for": None} for k in range(34)]
            pf = c19.render_files(rngp, scp) + [("many_" + nm.replace("/", "_"), tx) for nm, tx in c19.render_files(rngp, dict(scp, trades=extra, benefits=[]))]
            pc = {"id": "probe", "dir": os.path.join(wd, "probe"), "files": [[a, b] for a, b in pf]}
            import subprocess
            outp = os.path.join(wd, "probe.out")
            try:
                subprocess.run([common.HARNESS_BIN, "etrade", outp], input=(json.dumps(pc) + "\n").encode(), stdout=subprocess.DEVNULL,
                               stderr=subprocess.DEVNULL, timeout=20)
                pr = {}
            except subprocess.TimeoutExpired:
                pr = {"hang": {"budget_s": 20}}
            V.count()
            V.bump("etrade_combination_probe")
            if "hang" in pr or "crash" in pr:
                V.violation("etrade-plan-pdf-tx-extract does not finish within 20 s on %d sales inside one benefit's window" % (len(extra) + 2),
                            {"kind": "etrade", "case": dict(pc, dir=None), "mutation": "probe"},
                            {"what": "HANG", "front": "etrade-plan-pdf-tx-extract", "feat": "probe", "sales_in_one_window_over_30": True})
        for c in cases:
            V.count()
            r = res.get(c["id"], {})
            kind = meta[c["id"]]
            payload = {"kind": "etrade", "case": dict(c, dir=None), "mutation": kind}
            if "harness_error" in r:
                continue
            V.bump("etrade_extract_runs")
            names = [os.path.basename(f[0]) for f in c["files"]]
            if "panic" in r:
                V.violation("etrade-plan-pdf-tx-extract panicked at %s: %s [%s]" % (r["panic"]["loc"], r["panic"]["msg"][:200], kind), payload,
                            {"what": "PANIC", "front": "etrade-plan-pdf-tx-extract", "loc": r["panic"]["loc"], "msg": r["panic"]["msg"], "feat": kind})
            elif "crash" in r or "hang" in r:
                V.violation("etrade-plan-pdf-tx-extract crashed/hung: %s [%s]" % (json.dumps(r)[:200], kind), payload,
                            {"what": "CRASH" if "crash" in r else "HANG", "front": "etrade-plan-pdf-tx-extract", "feat": kind})
            elif not r.get("ok"):
                err = r.get("err") or ""
                if not err.strip():
                    V.violation("etrade-plan-pdf-tx-extract failed without a diagnostic [%s]" % kind, payload, {"what": "SILENT", "front": "etrade-plan-pdf-tx-extract"})
                elif not (attributed_periph(err, names) or any(s in err for s in ("FOO", "BAR"))):
                    V.violation("etrade-plan-pdf-tx-extract diagnostic names no file or security: %r [%s]" % (err[:200], kind), payload,
                                {"what": "UNATTRIBUTED", "front": "etrade-plan-pdf-tx-extract", "msg": err[:200]})
                else:
                    V.nontriv(("etrade-plan-pdf-tx-extract", kind[:30], re.sub(r"[0-9]+", "#", err)[:40]))
            else:
                V.nontriv(("etrade-plan-pdf-tx-extract", kind[:30], "report"))
        # --- statement text parser (extracted statement text)
        n = {"quick": 1500, "thorough": 50000}[tier]
        cases = []
        for i in range(n):
            rng = common.rng_for(seed, PROP, "fmv", i)
            pages, spec = c20.gen_statement(rng)
            pages = [mutate_text(rng, p)[0] if rng.random() < 0.6 else p for p in pages]
            cases.append({"id": "pf%06d" % i, "pages": pages})
        res = common.run_harness("fmv", cases, tag="c05pf")
        for c in cases:
            V.count()
            r = res.get(c["id"], {})
            V.bump("statement_text_runs")
            if "panic" in r or "crash" in r or "hang" in r:
                V.violation("statement FMV parser panicked/crashed: %s" % json.dumps(r.get("panic") or r)[:300], {"kind": "fmv", "case": c},
                            {"what": "PANIC", "front": "questrade-statement-fmv", "loc": (r.get("panic") or {}).get("loc", ""), "msg": (r.get("panic") or {}).get("msg", ""), "feat": "mutated_statement"})
            elif not r.get("ok") and not (r.get("err") or "").strip():
                V.violation("statement FMV parser failed without a message", {"kind": "fmv", "case": c}, {"what": "SILENT", "front": "questrade-statement-fmv"})
        # --- the real binaries on a sample
        for c in [x for x in os.listdir(wd) if x.endswith(".xlsx")][:{"quick": 30, "thorough": 300}[tier]]:
            r = common.run_cli("tx-export-convert", [os.path.join(wd, c), "--account", "."], home=wd, timeout=60)
            V.bump("binary_runs")
            err = r["err"].decode("utf-8", "replace")
            if r["rc"] not in (0, 1, 2) or "panicked at" in err:
                m = re.search(r"panicked at ([^\n]+)", err)
                V.violation("tx-export-convert binary panicked/aborted rc=%s: %s" % (r["rc"], err[-300:]), {"kind": "xlsx_cli", "file": c},
                            {"what": "PANIC", "front": "tx-export-convert", "loc": m.group(1) if m else "", "msg": err[-300:], "feat": "binary"})
    finally:
        common.cleanup(wd)
