"""C09: same input, same output, byte for byte (repeated-run comparison over separate processes)."""
import hashlib
import json
import os
import sys
from fractions import Fraction

sys.path.insert(0, os.path.dirname(os.path.abspath(__file__)))
import common
import gen
from common import Verdict
from ledger import history_to_case, mkrow

PROP = "C09"


def profile(rng):
    afs = rng.choice([["Default", "Spouse", "Kid"], ["Default", "Spouse", "Kid", "Spouse (R)", "Default (R)"],
                      ["Default", "Spouse", "Aunt", "Uncle", "Kid"]])
    return gen.Knobs(affiliates=afs, n_secs=(3, 7), n_rows=(30, 120), opening=0.3, p_global_split=0.9,
                     offsets=[0, 0, 1, 2, 5, 10, 29, 30, 31, 60, 100], p_loss_bias=0.7,
                     weights={"Buy": 5, "Sell": 5, "RoC": 1.5, "SfLA": 0.2, "Split": 1.5})


def tie_input(rng):
    """Several days tie for a year's maximum total cost; many securities; notes from other affiliates."""
    rows = []
    secs = ["S%02d" % i for i in range(rng.randint(4, 9))]
    y = rng.randint(2012, 2020)
    for i, s in enumerate(secs):
        rows.append(mkrow(s, "%d-01-%02d" % (y, 2 + i), "Buy", "", shares=str(rng.randint(1, 9) * 3), aps=gen.rand_dec(rng, 1, 99, 2), cur="CAD"))
        rows.append(mkrow(s, "%d-01-%02d" % (y, 2 + i), "Buy", rng.choice(["Spouse", "Kid", "Default (R)"]), shares="7", aps="3.333", cur="CAD"))
    # days that do not change any cost: zero RoC and splits -> ties for the yearly maximum
    for k in range(rng.randint(3, 8)):
        s = rng.choice(secs)
        d = "%d-%02d-%02d" % (y, rng.randint(3, 12), rng.randint(1, 28))
        if rng.random() < 0.5:
            rows.append(mkrow(s, d, "RoC", "", aps="0"))
        else:
            rows.append(mkrow(s, d, "Split", "", split=rng.choice(["2-for-1", "3-for-1"])))
    for s in secs[:3]:
        rows.append(mkrow(s, "%d-02-1%d" % (y + 1, rng.randint(0, 9)), "Sell", "", shares="1", aps="0.3333333", cur="CAD"))
        rows.append(mkrow(s, "%d-02-2%d" % (y + 1, rng.randint(0, 8)), "Buy", rng.choice(["Spouse", "Kid"]), shares="1", aps="0.77", cur="CAD"))
    rows.sort(key=lambda r: r["sd"])
    return {"rows": rows, "init": {}, "features": ["tie_input"]}


def dup_header_csv(rng):
    """A recognised header appears twice with both cells filled (which one wins must not vary)."""
    lines = ["security,trade date,settlement date,action,shares,amount/share,commission,currency,memo,commission,memo,affiliate,affiliate"]
    d = 1
    for i in range(rng.randint(4, 10)):
        sec = rng.choice(["FOO", "BAR"])
        act = "Buy" if i < 3 or rng.random() < 0.6 else "Sell"
        lines.append("%s,2019-03-%02d,2019-03-%02d,%s,%d,%s,%s,CAD,first memo %d,%s,second memo %d,%s,%s"
                     % (sec, d, d, act, rng.randint(1, 3) if act == "Sell" else rng.randint(5, 20), gen.rand_dec(rng, 5, 50, 2),
                        gen.rand_dec(rng, 0, 9, 2), i, gen.rand_dec(rng, 10, 19, 2), i, rng.choice(["", "Spouse"]), rng.choice(["Kid", ""])))
        d += 1
    return "\n".join(lines) + "\n"


def case_variant_input(rng):
    """Securities whose names differ only by case, or sort equal under common keys."""
    rows = []
    for s in ["XEQT", "xeqt", "Xeqt", "VTI", "vti", "A.B", "a.b"]:
        rows.append(mkrow(s, "2020-05-%02d" % rng.randint(1, 9), "Buy", "", shares=str(rng.randint(2, 30)), aps=gen.rand_dec(rng, 1, 80, 2), cur="CAD"))
        rows.append(mkrow(s, "2020-06-%02d" % rng.randint(10, 28), "Sell", "", shares="1", aps=gen.rand_dec(rng, 1, 80, 3), cur="CAD"))
        rows.append(mkrow(s, "2020-06-%02d" % rng.randint(10, 28), "Buy", "Spouse", shares="1", aps="9.99", cur="CAD"))
    rows.sort(key=lambda r: r["sd"])
    return {"rows": rows, "init": {}, "features": ["case_variant"]}


COMMANDS = [
    ("tables", []),
    ("tables-full", ["--print-full-values"]),
    ("csvdir", ["-d", "{OUT}"]),
    ("csvdir-full", ["-d", "{OUT}", "--print-full-values"]),
    ("costs", ["--total-costs"]),
    ("costs-csvdir-full", ["--total-costs", "-d", "{OUT}", "--print-full-values"]),
    ("summary", ["--summarize-before", "{DATE}"]),
    ("summary-annual", ["--summarize-before", "{DATE}", "--summarize-annual-gains"]),
    ("tables-verbose", ["--verbose"]),
    ("costs-verbose", ["--total-costs", "-v"]),
    ("summary-verbose", ["--summarize-before", "{DATE}", "-v"]),
]


def digest_dir(d):
    h = hashlib.sha1()
    names = []
    for root, _, files in os.walk(d):
        for fn in files:
            names.append(os.path.relpath(os.path.join(root, fn), d))
    for n in sorted(names):
        h.update(n.encode() + b"\0")
        with open(os.path.join(d, n), "rb") as f:
            h.update(f.read())
        h.update(b"\1")
    return h.hexdigest(), len(names)


def run_once(args):
    wd, inp_files, init, cname, cargs, date, rep = args
    out = os.path.join(wd, "out-%s-%d" % (cname, rep))
    a = list(inp_files)
    for s in init:
        a += ["-b", s]
    a += [x.replace("{OUT}", out).replace("{DATE}", date) for x in cargs]
    stale = None
    if rep % 2 == 1 and any("{OUT}" in x for x in cargs):
        stale = common.prefill_output_dir(out, inp_files)       # every other run writes into a directory that already holds a longer report
    r = common.run_cli("acb", a, home=wd)
    if stale is not None and os.path.isdir(out):
        common.drop_untouched(out, stale)
    dd, nf = digest_dir(out) if os.path.isdir(out) else ("-", 0)
    # stdout only (the statement is about standard output and output files)
    return (cname, rep, r["rc"], hashlib.sha1(r["out"]).hexdigest(), dd, nf, r["out"][:3000].decode("utf-8", "replace"))


def run(tier):
    seed = common.seed()
    common.build(bins=True)
    V = Verdict(PROP, tier)
    V.rule = ("inputs built to put weight on hash-ordered paths (>=3 affiliates with splits for all affiliates; days tying for a year's maximum cost; many "
              "securities with other-affiliate rows; securities differing only by case; a recognised header given twice) x 8 commands (tables, CSV "
              "directory, total costs, summary, annual summary, with and without full values, with and without --verbose) x N separate processes each (N=8 quick, 40 thorough), plus M "
              "in-process repetitions; one distinct stdout and one distinct output tree are required per (input, command); non-trivial = (input, command) "
              "pair; a HashMap canary in separate processes witnesses that per-process hash seeds really differ here")
    N = {"quick": 8, "thorough": 40}[tier]
    n_inputs = {"quick": 10, "thorough": 60}[tier]
    wd = common.workdir("c09")
    try:
        inputs = []
        for i in range(n_inputs):
            rng = common.rng_for(seed, PROP, i)
            kind = i % 5
            if kind == 0:
                h = gen.HistoryGen(rng, profile(rng)).gen()
                text = gen.rows_to_csv(h["rows"], gen.used_cols(h["rows"]))
            elif kind == 1:
                h = tie_input(rng)
                text = gen.rows_to_csv(h["rows"], gen.used_cols(h["rows"]))
            elif kind == 2:
                h = case_variant_input(rng)
                text = gen.rows_to_csv(h["rows"], gen.used_cols(h["rows"]))
            elif kind == 3:
                h = {"rows": [], "init": {}}
                text = dup_header_csv(rng)
            else:
                h = gen.HistoryGen(rng, profile(rng)).gen()
                text = gen.rows_to_csv(h["rows"], gen.used_cols(h["rows"]))
            p = os.path.join(wd, "in%d.csv" % i)
            with open(p, "w") as f:
                f.write(text)
            dates = sorted(r["sd"] for r in h["rows"]) or ["2019-03-05"]
            date = dates[len(dates) * 2 // 3]
            inputs.append((i, p, gen.init_args(h.get("init", {})), date, text, kind))
        # two shapes that depend on more than one input object: (a) the same security settling on the same day in two files
        # given in order; (b) an opening position for one security next to another security that only another affiliate holds
        # and that has a split for all affiliates
        extra_paths = {}
        for j in range({"quick": 1, "thorough": 6}[tier]):
            rng = common.rng_for(seed, PROP, "twofile", j)
            i = n_inputs + 2 * j
            d0 = "20%02d-03-04" % rng.randint(15, 22)
            fa = ["security,trade date,settlement date,action,shares,amount/share,commission,currency,affiliate"]
            fb = list(fa)
            for k in range(rng.randint(2, 5)):
                sec = rng.choice(["FOO", "BAR", "QQQ"])
                fa.append("%s,%s,%s,Buy,%d,%d.00,0,CAD,%s" % (sec, d0, d0, 10 * (k + 1), 10 + k, rng.choice(["", "Spouse"])))
                fb.append("%s,%s,%s,Sell,%d,%d.50,0,CAD," % (sec, d0, d0, 5, 12 + k))
            pa, pb = os.path.join(wd, "in%da.csv" % i), os.path.join(wd, "in%db.csv" % i)
            open(pa, "w").write("\n".join(fa) + "\n")
            open(pb, "w").write("\n".join(fb) + "\n")
            extra_paths[i] = [pa, pb]
            inputs.append((i, pa, [], d0, "\n".join(fa + fb), 5))
            i2 = i + 1
            y = rng.randint(2015, 2022)
            rows = ["security,trade date,settlement date,action,shares,amount/share,commission,currency,split ratio,affiliate"]
            for sec in ["BAR", "QQQ", "VTI", "XYZ"][:rng.randint(1, 4)]:
                rows += ["%s,%d-01-10,%d-01-10,Buy,10,10.00,0,CAD,,Spouse" % (sec, y, y), "%s,%d-02-10,%d-02-10,Split,,,,,2-for-1," % (sec, y, y),
                         "%s,%d-03-10,%d-03-10,Sell,5,6.00,0,CAD,,Spouse" % (sec, y, y)]
            rows += ["FOO,%d-01-15,%d-01-15,Buy,5,10.00,0,CAD,," % (y, y), "FOO,%d-04-15,%d-04-15,Sell,5,12.00,0,CAD,," % (y, y)]
            p2 = os.path.join(wd, "in%d.csv" % i2)
            open(p2, "w").write("\n".join(rows) + "\n")
            inputs.append((i2, p2, ["FOO:10:100", "ABC:1:1"], "%d-03-01" % y, "\n".join(rows) + "\n", 6))
        jobs = []
        for i, p, init, date, text, kind in inputs:
            sub = os.path.join(wd, "i%d" % i)
            os.makedirs(sub, exist_ok=True)
            for cname, cargs in COMMANDS:
                for rep in range(N):
                    jobs.append((sub, extra_paths.get(i, [p]), init, cname, cargs, date, rep))
        results = common.pmap(run_once, jobs)
        by = {}
        for job, r in zip(jobs, results):
            key = (job[1][0], r[0])
            by.setdefault(key, []).append(r)
        for (inp, cname), rs in sorted(by.items()):
            V.count(len(rs))
            V.nontriv((inp, cname))
            outs = {(r[2], r[3], r[4]) for r in rs}
            V.bump("process_runs", len(rs))
            if len(outs) != 1:
                text = open(inp).read()
                V.violation("%d distinct outputs over %d runs of command '%s' on %s" % (len(outs), len(rs), cname, os.path.basename(inp)),
                            {"kind": "repeat", "prop": PROP, "csv": text, "command": cname, "n": len(rs),
                             "init": [i[2] for i in inputs if i[1] == inp][0], "date": [i[3] for i in inputs if i[1] == inp][0]},
                            {"what": "nondeterministic output", "command": cname})
        V.sample({"input": inputs[1][4][:600], "commands": [c[0] for c in COMMANDS], "runs_per_command": N})
        # in-process repetitions (each HashMap instance gets a fresh seed)
        M = {"quick": 12, "thorough": 40}[tier]
        cases = []
        for i, p, init, date, text, kind in inputs:
            for m in range(M):
                cases.append({"id": "%d#%d" % (i, m), "files": [["in.csv", text]], "init": init, "full": True, "costs": True, "want": ["model", "text"]})
                cases.append({"id": "%d#s%d" % (i, m), "files": [["in.csv", text]], "init": init, "full": True, "summary": {"date": date, "annual": m % 2 == 1}})
        res = common.run_harness("app", cases, tag="c09")
        for i, p, init, date, text, kind in inputs:
            for pref in ("#", "#s"):
                sigs = {}
                for m in range(M):
                    if pref == "#s" and False:
                        pass
                    r = dict(res.get("%d%s%d" % (i, pref, m), {}))
                    r.pop("us", None)
                    r.pop("id", None)
                    k = (m % 2) if pref == "#s" else 0
                    sigs.setdefault(k, set()).add(json.dumps(r, sort_keys=True))
                V.bump("inprocess_runs", M)
                for k, ss in sigs.items():
                    if len(ss) != 1:
                        V.violation("%d distinct in-process results for input %d (%s)" % (len(ss), i, "summary" if pref == "#s" else "tables"),
                                    {"kind": "repeat_inprocess", "prop": PROP, "csv": text, "init": init, "date": date},
                                    {"what": "nondeterministic output", "command": "in-process"})
        # canary: distinct hash schedules actually observed in this environment
        keys = ["S%02d" % i for i in range(8)] + ["default", "spouse", "kid"]
        orders = set()
        for r in common.pmap(lambda k: common.run_harness("canary", [{"id": "c", "keys": keys}], tag="can%d" % k, nproc=1)["c"], range(16)):
            orders.add(tuple(r.get("order", [])))
        V.extra["distinct_hash_orders_observed"] = len(orders)
    finally:
        common.cleanup(wd)
    return V.finish(floor_eval=100, floor_nontrivial=10, floors={"distinct_hash_orders_observed": 4, "process_runs": 200})


def replay(rec):
    c = rec["case"]
    common.build(bins=True)
    wd = common.workdir("c09r")
    try:
        p = os.path.join(wd, "in.csv")
        open(p, "w").write(c["csv"])
        cmds = [x for x in COMMANDS if x[0] == c.get("command")] or COMMANDS
        bad = False
        for cname, cargs in cmds:
            rs = common.pmap(run_once, [(wd, [p], c.get("init", []), cname, cargs, c.get("date", "2020-01-01"), rep) for rep in range(40)])
            outs = {(r[2], r[3], r[4]) for r in rs}
            print("command %s: %d distinct outputs over 40 runs" % (cname, len(outs)))
            bad = bad or len(outs) != 1
        if bad:
            print("VIOLATION property=%s replay=%s" % (PROP, sys.argv[2]))
            return 1
        return 0
    finally:
        common.cleanup(wd)


if __name__ == "__main__":
    sys.exit(common.main_dispatch(PROP, run, replay))
