"""Shared orchestration for the acb runtime monitors: build, harness batches, CLI runs,
evidence, verdicts, known findings."""
import fcntl
import hashlib
import json
import os
import random
import shutil
import subprocess
import sys
import time
from concurrent.futures import ThreadPoolExecutor

VERIF = os.path.dirname(os.path.dirname(os.path.abspath(__file__)))
REPO = os.environ.get("ACB_REPO", "/repo")
TARGET = os.path.join(VERIF, "target")
HARNESS_BIN = os.path.join(TARGET, "debug", "acbmon")
REPO_TARGET = os.path.join(TARGET, "repo")
WORK = os.path.join(VERIF, "work")
NPROC = int(os.environ.get("VERIF_NPROC", "16"))


class Inconclusive(Exception):
    pass


def seed():
    try:
        return int(os.environ.get("VERIF_SEED", "1"))
    except ValueError:
        return 1


def rng_for(*parts):
    h = hashlib.sha1(("|".join(str(p) for p in parts)).encode()).hexdigest()
    return random.Random(int(h[:16], 16))


def case_id(*parts):
    return hashlib.sha1(("|".join(str(p) for p in parts)).encode()).hexdigest()[:12]


def _env():
    e = dict(os.environ)
    e["CARGO_NET_OFFLINE"] = "true"
    e["RUST_BACKTRACE"] = "0"
    e.pop("RUSTFLAGS", None)
    return e


_built = {}


def build(bins=False, release=False):
    """Rebuild harness (and optionally the repo's own binaries) from /repo's working tree."""
    key = (bins, release)
    if _built.get(key):
        return
    os.makedirs(TARGET, exist_ok=True)
    lock = open(os.path.join(TARGET, ".build.lock"), "w")
    fcntl.flock(lock, fcntl.LOCK_EX)
    try:
        hl = os.path.join(VERIF, "harness", "Cargo.lock")
        if not os.path.exists(hl):
            shutil.copy(os.path.join(REPO, "Cargo.lock"), hl)
        if not _built.get("harness"):
            env = _env()
            env["CARGO_TARGET_DIR"] = TARGET
            r = subprocess.run(
                ["cargo", "build", "--offline", "--quiet"],
                cwd=os.path.join(VERIF, "harness"), env=env,
                stdout=subprocess.PIPE, stderr=subprocess.STDOUT, text=True)
            if r.returncode != 0:
                sys.stderr.write(r.stdout[-4000:])
                raise Inconclusive("harness build failed")
            _built["harness"] = True
        if bins:
            env = _env()
            env["CARGO_TARGET_DIR"] = REPO_TARGET
            cmd = ["cargo", "build", "--offline", "--quiet", "--manifest-path",
                   os.path.join(REPO, "Cargo.toml"), "--bins"]
            if release:
                cmd.append("--release")
            r = subprocess.run(cmd, env=env, stdout=subprocess.PIPE,
                               stderr=subprocess.STDOUT, text=True)
            if r.returncode != 0:
                sys.stderr.write(r.stdout[-4000:])
                raise Inconclusive("repo bins build failed")
        _built[key] = True
    finally:
        fcntl.flock(lock, fcntl.LOCK_UN)
        lock.close()


def repo_bin(name, release=False):
    return os.path.join(REPO_TARGET, "release" if release else "debug", name)


_wd_counter = [0]


def workdir(tag):
    _wd_counter[0] += 1
    d = os.path.join(WORK, "%s-%d-%d" % (tag, os.getpid(), _wd_counter[0]))
    shutil.rmtree(d, ignore_errors=True)
    os.makedirs(d, exist_ok=True)
    return d


def cleanup(d):
    shutil.rmtree(d, ignore_errors=True)


def _run_shard(mode, cases, wd, idx, per_case_timeout):
    """Run a shard of cases in one harness process; isolate a case that kills or hangs it."""
    results = []
    pos = 0
    attempt = 0
    while pos < len(cases):
        attempt += 1
        inp = os.path.join(wd, "in-%d-%d.jsonl" % (idx, attempt))
        outp = os.path.join(wd, "out-%d-%d.jsonl" % (idx, attempt))
        with open(inp, "w") as f:
            for c in cases[pos:]:
                f.write(json.dumps(c) + "\n")
        budget = max(60.0, per_case_timeout * (len(cases) - pos) / 20.0)
        status = None
        try:
            with open(inp) as fin:
                p = subprocess.run([HARNESS_BIN, mode, outp], stdin=fin, env=_env(),
                                   stdout=subprocess.DEVNULL, stderr=subprocess.PIPE,
                                   timeout=budget)
            status = p.returncode
            errtail = p.stderr[-2000:].decode("utf-8", "replace")
        except subprocess.TimeoutExpired as e:
            status = "timeout"
            errtail = (e.stderr or b"")[-2000:].decode("utf-8", "replace")
        got = []
        if os.path.exists(outp):
            with open(outp) as f:
                for line in f:
                    line = line.strip()
                    if not line:
                        continue
                    try:
                        got.append(json.loads(line))
                    except ValueError:
                        break
        results.extend(got)
        pos += len(got)
        os.unlink(inp)
        if os.path.exists(outp):
            os.unlink(outp)
        if pos < len(cases):
            # the process died or hung while working on cases[pos]
            if status == 0:
                raise Inconclusive("harness exited 0 without finishing its shard")
            if status == 3:
                raise Inconclusive("harness could not read its input: " + errtail)
            bad = cases[pos]
            verdict = _isolate(mode, bad, wd, idx, per_case_timeout)
            verdict["id"] = bad.get("id")
            results.append(verdict)
            pos += 1
    return results


def _isolate(mode, case, wd, idx, per_case_timeout):
    """Re-run one case alone with a generous watchdog, to tell a real crash/hang from load."""
    inp = os.path.join(wd, "iso-%d.jsonl" % idx)
    outp = os.path.join(wd, "iso-out-%d.jsonl" % idx)
    with open(inp, "w") as f:
        f.write(json.dumps(case) + "\n")
    try:
        with open(inp) as fin:
            p = subprocess.run([HARNESS_BIN, mode, outp], stdin=fin, env=_env(),
                               stdout=subprocess.DEVNULL, stderr=subprocess.PIPE,
                               timeout=per_case_timeout * 10)
        if p.returncode == 0 and os.path.exists(outp):
            with open(outp) as f:
                line = f.readline().strip()
            if line:
                return json.loads(line)
        return {"crash": {"status": p.returncode,
                          "stderr": p.stderr[-1500:].decode("utf-8", "replace")}}
    except subprocess.TimeoutExpired:
        return {"hang": {"budget_s": per_case_timeout * 10}}
    finally:
        for q in (inp, outp):
            if os.path.exists(q):
                os.unlink(q)


def run_harness(mode, cases, tag="h", nproc=None, per_case_timeout=20.0):
    """Run cases through acbmon <mode>, sharded over processes. Returns {id: result}."""
    if not cases:
        return {}
    nproc = nproc or NPROC
    build()
    wd = workdir(tag)
    try:
        n = min(nproc, max(1, len(cases) // 4)) if len(cases) < nproc * 4 else nproc
        shards = [cases[i::n] for i in range(n)]
        with ThreadPoolExecutor(max_workers=n) as ex:
            futs = [ex.submit(_run_shard, mode, sh, wd, i, per_case_timeout)
                    for i, sh in enumerate(shards)]
            out = {}
            for fu in futs:
                for r in fu.result():
                    out[r.get("id")] = r
        return out
    finally:
        cleanup(wd)


def run_cli(binname, args, home, cwd=None, timeout=120, stdin=None, release=False):
    """Run one of the repo's real binaries. HOME is redirected so ~/.acb stays in scratch."""
    env = _env()
    env["HOME"] = home
    env.pop("DISPLAY_OPT_NONE", None)
    try:
        p = subprocess.run([repo_bin(binname, release)] + list(args), env=env, cwd=cwd,
                           stdout=subprocess.PIPE, stderr=subprocess.PIPE, timeout=timeout,
                           input=stdin)
        return {"rc": p.returncode, "out": p.stdout, "err": p.stderr}
    except subprocess.TimeoutExpired as e:
        return {"rc": "timeout", "out": e.stdout or b"", "err": e.stderr or b""}


def prefill_output_dir(out, input_paths):
    """A reused --csv-output-dir: files of an earlier, longer report with the names this run will write (one per security
    of the input, plus the fixed ones). What the run leaves must not depend on them."""
    import csv as _csv
    os.makedirs(out, exist_ok=True)
    names = {"aggregate-gains", "total-costs", "yearly-max-costs"}
    for p in input_paths:
        try:
            with open(p, newline="", encoding="utf-8", errors="replace") as f:
                for i, row in enumerate(_csv.reader(f)):
                    if i and row and row[0].strip() and "/" not in row[0] and len(row[0]) < 100:
                        names.add(row[0].strip())
        except (OSError, _csv.Error):
            pass
    stale = "".join("STALE,2001-01-%02d,2001-01-%02d,Buy,$1.00,1,$1.00,-,-,-,1,+$1.00,$1.00,$1.00,Default,stale row %d\n" % (1 + k % 28, 1 + k % 28, k)
                    for k in range(400))
    for n in names:
        try:
            with open(os.path.join(out, n + ".csv"), "w") as f:
                f.write(stale)
        except OSError:
            pass
    return stale.encode()


def drop_untouched(out, stale):
    """Removes the pre-filled files the run did not write to at all (not part of its output)."""
    for root, _, files in os.walk(out):
        for fn in files:
            p = os.path.join(root, fn)
            with open(p, "rb") as f:
                same = f.read() == stale
            if same:
                os.remove(p)


def pmap(fn, items, nproc=None):
    with ThreadPoolExecutor(max_workers=nproc or NPROC) as ex:
        return list(ex.map(fn, items))


# ---------------------------------------------------------------------------------------
# known findings

def load_known_findings():
    p = os.path.join(VERIF, "known_findings.json")
    if not os.path.exists(p):
        return {"open": [], "fixed": []}
    with open(p) as f:
        return json.load(f)


class Verdict:
    """Collects what a check observed and turns it into exit status + evidence."""

    def __init__(self, prop, tier, level="exploration"):
        self.prop = prop
        self.tier = tier
        self.level = level
        self.t0 = time.time()
        self.evaluations = 0
        self.nontrivial = set()
        self.samples = []
        self.violations = []     # (description, case)
        self.known_hits = {}     # finding id -> count
        self.unjudged = 0
        self.extra = {}
        self.rule = ""
        self.assumptions = []
        self.exhaustive = None
        self.kf = [k for k in load_known_findings().get("open", [])
                   if k.get("property") == prop]

    def count(self, n=1):
        self.evaluations += n

    def nontriv(self, key):
        self.nontrivial.add(key)

    def sample(self, s, cap=4):
        if len(self.samples) < cap:
            self.samples.append(s)

    def bump(self, key, n=1):
        self.extra[key] = self.extra.get(key, 0) + n

    def violation(self, desc, case, signature=None):
        """signature: dict of facts that known-finding predicates are matched against."""
        sig = signature or {}
        for k in self.kf:
            if match_finding(k, sig):
                self.known_hits.setdefault(k["id"], {"n": 0, "what": k["what"]})
                self.known_hits[k["id"]]["n"] += 1
                return False
        self.violations.append((desc, case))
        return True

    def finish(self, floor_eval=1, floor_nontrivial=2, floors=None):
        """floors: {extra-key: minimum}; a run that observed less is inconclusive (exit 2),
        but only when it found no violation."""
        wall = time.time() - self.t0
        for kid, kh in sorted(self.known_hits.items()):
            print("KNOWN-FINDING: property=%s %s [%s; matched %d case(s) this run]"
                  % (self.prop, kh["what"], kid, kh["n"]))
        replay_paths = []
        rdir = os.path.join(VERIF, "replays", self.prop)
        if self.violations:
            os.makedirs(rdir, exist_ok=True)
            seen = 0
            for desc, case in self.violations[:5]:
                name = "viol-%s-%d-%d.json" % (self.tier, seed(), seen)
                path = os.path.join(rdir, name)
                with open(path, "w") as f:
                    json.dump({"property": self.prop, "description": desc, "case": case},
                              f, indent=1)
                replay_paths.append(path)
                seen += 1
        cov = {
            "evaluations": self.evaluations,
            "distinct_nontrivial": len(self.nontrivial),
            "rule": self.rule,
            "samples": self.samples if self.samples else ["<none>"],
            "unjudged": self.unjudged,
            "known_finding_hits": {k: v["n"] for k, v in self.known_hits.items()},
        }
        if self.exhaustive is not None:
            cov["exhaustive"] = self.exhaustive
        cov.update(self.extra)
        ev = {
            "property_id": self.prop,
            "tier": self.tier,
            "seed": seed(),
            "level": self.level,
            "coverage": cov,
            "assumptions": self.assumptions,
            "wall_s": round(wall, 2),
            "violations": len(self.violations),
        }
        os.makedirs(os.path.join(VERIF, "evidence"), exist_ok=True)
        with open(os.path.join(VERIF, "evidence", self.prop + ".json"), "w") as f:
            json.dump(ev, f, indent=1, sort_keys=True)
            f.write("\n")
        print("%s %s seed=%d: evaluations=%d distinct_nontrivial=%d unjudged=%d violations=%d wall=%.1fs"
              % (self.prop, self.tier, seed(), self.evaluations, len(self.nontrivial),
                 self.unjudged, len(self.violations), wall))
        for k, v in sorted(self.extra.items()):
            if isinstance(v, (int, float, str)):
                print("  %s = %s" % (k, v))
        if self.violations:
            for (desc, _), p in zip(self.violations, replay_paths):
                print("  violation: %s" % desc[:600])
                print("VIOLATION property=%s replay=%s" % (self.prop, p))
            if len(self.violations) > len(replay_paths):
                print("  (+%d more violations not written out)"
                      % (len(self.violations) - len(replay_paths)))
            return 1
        for k, mn in (floors or {}).items():
            if self.extra.get(k, 0) < mn:
                print("INCONCLUSIVE reason=monitor observed too little (%s=%s < %s)" % (k, self.extra.get(k, 0), mn))
                return 2
        if self.evaluations < floor_eval or len(self.nontrivial) < floor_nontrivial:
            print("INCONCLUSIVE reason=too few events observed (evaluations=%d, nontrivial=%d)"
                  % (self.evaluations, len(self.nontrivial)))
            return 2
        return 0


def match_finding(k, sig):
    """A known finding matches when every key of its `match` dict agrees with the signature:
    strings are substring matches, lists mean any-of, booleans/numbers mean equality."""
    m = k.get("match", {})
    if not m:
        return False
    for key, want in m.items():
        have = sig.get(key)
        if have is None:
            return False
        if isinstance(want, list):
            if not any(_m1(w, have) for w in want):
                return False
        elif not _m1(want, have):
            return False
    return True


def _m1(want, have):
    if isinstance(want, str):
        return want in str(have)
    return want == have


def main_dispatch(prop, run_fn, replay_fn=None):
    args = sys.argv[1:]
    try:
        if args and args[0] == "--replay":
            if replay_fn is None:
                print("replay not supported for " + prop)
                return 2
            with open(args[1]) as f:
                rec = json.load(f)
            return replay_fn(rec)
        tier = args[0] if args else os.environ.get("VERIF_TIER", "quick")
        if tier not in ("quick", "thorough"):
            tier = "quick"
        return run_fn(tier)
    except Inconclusive as e:
        print("INCONCLUSIVE reason=%s" % e)
        return 2
    except Exception:
        # a fault of the checking machinery itself is never a verdict on the property
        import traceback
        traceback.print_exc()
        print("INCONCLUSIVE reason=harness error (see traceback)")
        return 2
