"""C01-C04: reference-model monitors over the rows the tool reports (see DESIGN.md sections C01-C04).

One engine (ref.analyze) judges every reported row; each check reports only the findings of
its own property. Workloads differ per property.
"""
import datetime
import json
import multiprocessing
import os
import re
import sys
from fractions import Fraction

sys.path.insert(0, os.path.dirname(os.path.abspath(__file__)))
import common
import gen
import ref
from common import Verdict

ALL_AFS = [["Default"], ["Default", "Spouse"], ["Default", "Spouse", "Default (R)"],
           ["Default", "Spouse", "Kid", "Spouse (R)"], ["Default", "Spouse", "Kid"],
           ["Default", "Default (R)"]]


def profile(prop, rng):
    if prop == "C01":
        return gen.Knobs(affiliates=rng.choice(ALL_AFS), n_secs=(1, 3), n_rows=(5, 60),
                         opening=0.25, p_comm=0.7, p_comm_cur=0.3,
                         weights={"Buy": 5, "Sell": 5, "RoC": 1.5, "SfLA": 0.4, "Split": 1.0})
    if prop == "C02":
        return gen.Knobs(affiliates=rng.choice(ALL_AFS), n_secs=(1, 1), n_rows=(6, 40),
                         p_loss_bias=0.8, opening=0.1,
                         weights={"Buy": 5, "Sell": 6, "RoC": 0.2, "SfLA": 0.0, "Split": 1.2},
                         offsets=[0, 0, 1, 1, 2, 5, 10, 28, 29, 29, 30, 30, 30, 31, 31, 32, 45, 61],
                         td_lag=[0, 0, 1, 2, 2, 3, 5])
    if prop == "C03":
        afs = rng.choice([["Default", "Spouse"], ["Default", "Spouse", "Kid"],
                          ["Default", "Spouse", "Kid", "Aunt"], ["Default", "Spouse", "Kid"],
                          ["Default", "Spouse", "Spouse (R)"]])
        return gen.Knobs(affiliates=afs, n_secs=(1, 1), n_rows=(8, 50), p_loss_bias=0.8,
                         weights={"Buy": 6, "Sell": 6, "RoC": 0.8, "SfLA": 0.0, "Split": 0.8},
                         offsets=[0, 0, 1, 2, 3, 5, 8, 10, 14, 20, 29, 30, 31, 40],
                         opening=0.2)
    if prop == "C04":
        return gen.Knobs(affiliates=rng.choice(ALL_AFS), n_secs=(1, 3), n_rows=(4, 40),
                         p_invalid=rng.choice([0.0, 0.02, 0.05, 0.1]), opening=0.2,
                         p_full_liquidation=0.3,
                         weights={"Buy": 5, "Sell": 5, "RoC": 1.5, "SfLA": 0.5, "Split": 1.5})
    raise ValueError(prop)


# ---------------------------------------------------------------------------------------
# explicit families

def mkrow(sec, sd, action, af="", td=None, **kw):
    r = {"sec": sec, "sd": sd, "td": td or sd, "action": action, "af": af, "memo": ""}
    r.update(kw)
    return r


def iso(d):
    return d.isoformat()


def c02_pair_family():
    """One loss sale plus one other event by each affiliate kind at every settlement offset
    -35..+35 and both same-day orders. Finite; enumerated completely in both tiers."""
    base = datetime.date(2019, 6, 14)
    out = []
    afs = ["Default", "Spouse", "Default (R)", "Spouse (R)"]
    for off in range(-35, 36):
        for af in afs:
            for kind in ("Buy", "Sell", "SplitBuy"):
                for order in ("before", "after"):
                    if off != 0 and order == "after":
                        continue
                    d = base + datetime.timedelta(days=off)
                    rows = [mkrow("FOO", iso(base - datetime.timedelta(days=200)), "Buy", "Default",
                                  shares="10", aps="10", cur="CAD"),
                            mkrow("FOO", iso(base - datetime.timedelta(days=199)), "Buy", af,
                                  shares="7", aps="10", cur="CAD")]
                    sale = mkrow("FOO", iso(base), "Sell", "Default", td=iso(base - datetime.timedelta(days=2)),
                                 shares="4", aps="6", cur="CAD")
                    if kind == "Buy":
                        other = [mkrow("FOO", iso(d), "Buy", af, td=iso(d - datetime.timedelta(days=3)),
                                       shares="3", aps="7", cur="CAD")]
                    elif kind == "Sell":
                        # an acquisition on the sale date by the other affiliate, plus a sale at offset
                        other = [mkrow("FOO", iso(d), "Sell", af, td=iso(d - datetime.timedelta(days=1)),
                                       shares="7", aps="11", cur="CAD")]
                        rows.append(mkrow("FOO", iso(base - datetime.timedelta(days=5)), "Buy", "Default",
                                          shares="2", aps="9", cur="CAD"))
                    else:
                        if off == 0:
                            continue
                        sd_split = base + datetime.timedelta(days=off // 2 if abs(off) > 1 else off)
                        other = [mkrow("FOO", iso(sd_split), "Split", "", split="2-for-1"),
                                 mkrow("FOO", iso(d), "Buy", af, shares="3", aps="3.5", cur="CAD")]
                        if off < 0:
                            sale["shares"] = "4"
                            sale["aps"] = "3"
                    ev = (other + [sale]) if (off < 0 or (off == 0 and order == "before")) else ([sale] + other)
                    name = "pair off=%d af=%s kind=%s order=%s" % (off, af, kind, order)
                    out.append((name, {"rows": rows + ev, "init": {}, "features": ["pair_family"]}))
    return out


def c02_triple_family(step=1):
    """Loss sale + an acquisition at offset a by one affiliate + a sale at offset b by another (or the same)
    affiliate, every (a, b) in -32..32 (thorough tier), so that 'acquired' and 'held at the end of the window'
    are probed independently at every boundary."""
    base = datetime.date(2020, 9, 15)
    out = []
    afs = ["Default", "Spouse", "Spouse (R)"]
    for a in range(-32, 33, step):
        for b in range(-32, 33, step):
            for buyer in afs:
                for seller in ("Default", "Spouse"):
                    rows = [mkrow("FOO", iso(base - datetime.timedelta(days=300)), "Buy", "Default", shares="10", aps="10", cur="CAD"),
                            mkrow("FOO", iso(base - datetime.timedelta(days=299)), "Buy", "Spouse", shares="6", aps="10", cur="CAD")]
                    sale = mkrow("FOO", iso(base), "Sell", "Default", td=iso(base - datetime.timedelta(days=3)), shares="4", aps="6.5", cur="CAD")
                    buy = mkrow("FOO", iso(base + datetime.timedelta(days=a)), "Buy", buyer, shares="3", aps="7", cur="CAD")
                    sell = mkrow("FOO", iso(base + datetime.timedelta(days=b)), "Sell", seller, shares="6", aps="11", cur="CAD")
                    ev = sorted([sale, buy, sell], key=lambda r: r["sd"])
                    out.append(("triple a=%d b=%d buyer=%s seller=%s" % (a, b, buyer, seller),
                                {"rows": rows + ev, "init": {}, "features": ["triple_family"]}))
    return out


def c02_user_sfl_family(rng, n):
    """Sales with a user-supplied 'superficial loss' value at chosen distances from the computed one."""
    out = []
    base = datetime.date(2021, 3, 10)
    for i in range(n):
        q0 = rng.choice([10, 12, 30, 7])
        sold = rng.choice([4, 5, 3])
        rebuy = rng.choice([2, 5, 3, 10])
        p0 = Fraction(rng.randint(800, 2000), 100)
        p1 = p0 * Fraction(rng.randint(30, 95), 100)
        p1 = Fraction(int(p1 * 100), 100)
        if rng.random() < 0.5:
            # computed values that are not a whole number of cents
            p0 += Fraction(rng.randint(1, 99), 10000)
            p1 += Fraction(rng.randint(1, 99), 10000)
        pdp = 4
        off = rng.choice([1, 5, 29, 30])
        rows = [mkrow("BAR", iso(base - datetime.timedelta(days=90)), "Buy", "", shares=str(q0), aps=gen.dec_str(p0, 4), cur="CAD")]
        loss = sold * (p1 - p0)
        n_sfl = min(sold, rebuy, q0 - sold + rebuy)
        computed = loss * n_sfl / sold
        dist = rng.choice(["0", "0.0009", "0.001", "0.0011", "1", "-0.0009", "-0.0011", "0.004", "-0.004", "0.0049", "zero", "noloss", "beyond"])
        forced = rng.random() < 0.4
        sale = mkrow("BAR", iso(base), "Sell", "", shares=str(sold), aps=gen.dec_str(p1, 4), cur="CAD")
        if dist == "noloss":
            sale["aps"] = gen.dec_str(p0 + 1, 4)
            sale["sfl"] = "-1.00" + ("!" if forced else "")
        elif dist == "beyond":
            # a forced value larger in magnitude than the loss itself: the reported gain is then positive
            forced = True
            sale["sfl"] = "-" + gen.floor_dec(-loss + Fraction(rng.choice(["2.5", "0.01", "100"])), 10) + "!"
        elif dist == "zero":
            sale["sfl"] = "0" + ("!" if forced else "")
        else:
            v = computed + Fraction(dist)
            if v > 0:
                v = computed
            # 10 decimals are plenty: computed is a multiple of 1/(100*sold)
            sale["sfl"] = gen.floor_dec(-v, 10)
            sale["sfl"] = "-" + sale["sfl"] if Fraction(sale["sfl"]) != 0 else "0"
            if forced:
                sale["sfl"] += "!"
        rows.append(sale)
        # the user must supply the SfLA rows themselves
        if "sfl" in sale and dist not in ("noloss", "zero") and rng.random() < 0.7:
            amt = -Fraction(sale["sfl"].rstrip("!"))
            if amt > 0:
                rows.append(mkrow("BAR", iso(base), "SfLA", "", shares="1", aps=gen.floor_dec(amt, 10)))
        rows.append(mkrow("BAR", iso(base + datetime.timedelta(days=off)), "Buy", "", shares=str(rebuy), aps=gen.dec_str(p1, 4), cur="CAD"))
        rows.append(mkrow("BAR", iso(base + datetime.timedelta(days=120)), "Sell", "", shares="1", aps=gen.dec_str(p0, 4), cur="CAD"))
        out.append(("user_sfl dist=%s forced=%s" % (dist, forced),
                    {"rows": rows, "init": {}, "features": ["user_sfl_family", "dist_" + dist]}))
    return out


def c04_reason_family(rng, n):
    """Histories aimed at each rejection reason, and at valid boundary cases next to them."""
    out = []
    d0 = datetime.date(2018, 1, 10)
    D = lambda k: iso(d0 + datetime.timedelta(days=k))
    for i in range(n):
        kind = rng.choice(["oversell_exact", "oversell_eps", "sell_all_after_rsplit", "roc_exact", "roc_eps",
                           "roc_reg", "sfla_reg", "rsplit_frac", "rsplit_int_ok", "rsplit_dec_ok",
                           "sfl_no_loss", "sfl_mismatch", "sfl_match", "oversell_other_af", "late_error",
                           "sell_all_after_split_loss", "rsplit_nonlowest_ok", "rsplit_frac_holding_ok", "rsplit_nonlowest_frac",
                           "first_row_oversell", "first_row_roc_reg", "first_row_sfla_reg", "first_row_other_af_sell",
                           "twin_roc_reg", "long_affiliate_lookahead"])
        q = rng.choice([3, 7, 9, 10, 11, 30, 100])
        p = gen.rand_dec(rng, 1, 200, 2)
        af2 = rng.choice(["Spouse", "Kid"])
        rows = [mkrow("FOO", D(0), "Buy", "", shares=str(q), aps=p, cur="CAD")]
        sec2 = [mkrow("OK", D(3), "Buy", "", shares="5", aps="10", cur="CAD"),
                mkrow("OK", D(40), "Sell", "", shares="2", aps="12.345", cur="CAD")]
        if kind == "oversell_exact":
            rows.append(mkrow("FOO", D(50), "Sell", "", shares=str(q), aps=p, cur="CAD"))
        elif kind == "oversell_eps":
            rows.append(mkrow("FOO", D(50), "Sell", "", shares=gen.dec_str(Fraction(q) + Fraction(1, 10 ** 10), 10), aps=p, cur="CAD"))
        elif kind == "sell_all_after_rsplit":
            r = rng.choice(["1.0-for-3.0", "1.0-for-7.0", "2.0-for-3.0", "1.0-for-9.0"])
            f = gen.split_factor(r)
            rows.append(mkrow("FOO", D(20), "Split", "", split=r))
            after = Fraction(q) * f
            if (after * 10 ** 10).denominator == 1:
                rows.append(mkrow("FOO", D(50), "Sell", "", shares=gen.dec_str(after, 10), aps=p, cur="CAD"))
            else:
                rows.append(mkrow("FOO", D(50), "Sell", "", shares=gen.floor_dec(after, 10), aps=p, cur="CAD"))
        elif kind == "sell_all_after_split_loss":
            # loss sale, then a reverse split inside its window, then selling exactly the rest
            r = rng.choice(["1.0-for-3.0", "1.0-for-2.0", "1.0-for-7.0"])
            f = gen.split_factor(r)
            q = rng.choice([9, 21, 63, 42])
            rows = [mkrow("FOO", D(0), "Buy", "", shares=str(q), aps="10", cur="CAD")]
            k = rng.choice([1, 2])
            sold = q // 3
            rows.append(mkrow("FOO", D(40), "Sell", "", shares=str(sold), aps="5", cur="CAD"))
            rows.append(mkrow("FOO", D(45), "Split", "", split=r))
            rest = Fraction(q - sold) * f
            if (rest * 10 ** 10).denominator == 1:
                rows.append(mkrow("FOO", D(50), "Sell", "", shares=gen.dec_str(rest, 10), aps="20", cur="CAD"))
        elif kind in ("roc_exact", "roc_eps"):
            per = Fraction(p)
            if kind == "roc_eps":
                per = per + Fraction(1, 10 ** 6)
            rows.append(mkrow("FOO", D(30), "RoC", "", aps=gen.dec_str(per, 10)))
        elif kind == "roc_reg":
            rows.append(mkrow("FOO", D(5), "Buy", "Default (R)", shares="4", aps=p, cur="CAD"))
            rows.append(mkrow("FOO", D(30), "RoC", "Default (R)", aps="0.1"))
        elif kind == "twin_roc_reg":
            # two securities rejected on the same day with word-for-word the same message (it names no security)
            rows.append(mkrow("FOO", D(5), "Buy", "Default (R)", shares="4", aps=p, cur="CAD"))
            rows.append(mkrow("FOO", D(30), "RoC", "Default (R)", aps="0.1"))
            rows.append(mkrow("TWIN", D(1), "Buy", "", shares="3", aps=p, cur="CAD"))
            rows.append(mkrow("TWIN", D(6), "Buy", "Default (R)", shares="4", aps=p, cur="CAD"))
            rows.append(mkrow("TWIN", D(30), "RoC", "Default (R)", aps="0.1"))
        elif kind == "long_affiliate_lookahead":
            # the message names the offending sale at its very end, after a long affiliate name
            laf = rng.choice(["Spouse of the account holder (joint)", "Family Trust Number Two Investments", "Kid"])
            rows = [mkrow("FOO", D(0), "Buy", "", shares="50", aps=p, cur="CAD"),
                    mkrow("FOO", D(0), "Buy", laf, shares="10", aps="10", cur="CAD"),
                    mkrow("FOO", D(40), "Sell", laf, shares="5", aps="5", cur="CAD"),
                    mkrow("FOO", D(50), "Sell", laf, shares="10", aps="5", cur="CAD")]
        elif kind == "sfla_reg":
            rows.append(mkrow("FOO", D(5), "Buy", af2 + " (R)", shares="4", aps=p, cur="CAD"))
            rows.append(mkrow("FOO", D(30), "SfLA", af2 + " (R)", shares="1", aps="2.5"))
        elif kind == "rsplit_frac":
            q = rng.choice([3, 5, 7, 9, 11])
            rows = [mkrow("FOO", D(0), "Buy", "", shares=str(q), aps=p, cur="CAD"),
                    mkrow("FOO", D(20), "Split", "", split="1-for-2"),
                    mkrow("FOO", D(60), "Sell", "", shares="1", aps=p, cur="CAD")]
        elif kind == "rsplit_int_ok":
            q = rng.choice([4, 6, 8, 10])
            rows = [mkrow("FOO", D(0), "Buy", "", shares=str(q), aps=p, cur="CAD"),
                    mkrow("FOO", D(20), "Split", "", split="1-for-2"),
                    mkrow("FOO", D(60), "Sell", "", shares=str(q // 2), aps=p, cur="CAD")]
        elif kind == "rsplit_dec_ok":
            q = rng.choice([3, 5, 7, 9, 11])
            rows = [mkrow("FOO", D(0), "Buy", "", shares=str(q), aps=p, cur="CAD"),
                    mkrow("FOO", D(20), "Split", "", split="1.0-for-2.0"),
                    mkrow("FOO", D(60), "Sell", "", shares=gen.dec_str(Fraction(q, 2), 1), aps=p, cur="CAD")]
        elif kind == "rsplit_nonlowest_ok":
            # whole-number reverse split whose ratio is not in lowest terms; the result is whole
            a_, b_ = rng.choice([(2, 4), (10, 25), (3, 6), (4, 10), (2, 6)])
            q = b_ * rng.randint(1, 9)
            rows = [mkrow("FOO", D(0), "Buy", "", shares=str(q), aps=p, cur="CAD"),
                    mkrow("FOO", D(20), "Split", rng.choice(["", "Default"]), split="%d-for-%d" % (a_, b_)),
                    mkrow("FOO", D(60), "Sell", "", shares=str(q * a_ // b_), aps=p, cur="CAD")]
        elif kind == "rsplit_frac_holding_ok":
            # a fractional holding that consolidates to whole shares
            rows = [mkrow("FOO", D(0), "Buy", "", shares="7.5", aps=p, cur="CAD"),
                    mkrow("FOO", D(20), "Split", "", split="2-for-5"),
                    mkrow("FOO", D(60), "Sell", "", shares="3", aps=p, cur="CAD")]
        elif kind == "rsplit_nonlowest_frac":
            a_, b_ = rng.choice([(2, 4), (10, 25), (3, 6)])
            q = b_ * rng.randint(1, 9) + 1
            rows = [mkrow("FOO", D(0), "Buy", "", shares=str(q), aps=p, cur="CAD"),
                    mkrow("FOO", D(20), "Split", "", split="%d-for-%d" % (a_, b_)),
                    mkrow("FOO", D(60), "Sell", "", shares="1", aps=p, cur="CAD")]
        elif kind == "first_row_oversell":
            rows = [mkrow("FOO", D(0), "Sell", "", shares=str(q), aps=p, cur="CAD"),
                    mkrow("FOO", D(10), "Buy", "", shares=str(q), aps=p, cur="CAD")]
        elif kind == "first_row_roc_reg":
            rows = [mkrow("FOO", D(0), "RoC", "Default (R)", aps="0.1"),
                    mkrow("FOO", D(10), "Buy", "", shares=str(q), aps=p, cur="CAD")]
        elif kind == "first_row_sfla_reg":
            rows = [mkrow("FOO", D(0), "SfLA", af2 + " (R)", shares="1", aps="2.5"),
                    mkrow("FOO", D(10), "Buy", "", shares=str(q), aps=p, cur="CAD")]
        elif kind == "first_row_other_af_sell":
            # the purchase was booked under another affiliate; the seller holds nothing
            rows = [mkrow("FOO", D(0), "Sell", af2, shares=str(q), aps=p, cur="CAD"),
                    mkrow("FOO", D(0), "Buy", "", shares=str(q), aps=p, cur="CAD")]
        elif kind == "sfl_no_loss":
            rows.append(mkrow("FOO", D(50), "Sell", "", shares="1", aps=gen.dec_str(Fraction(p) + 5, 2), cur="CAD", sfl="-1.5"))
        elif kind in ("sfl_mismatch", "sfl_match"):
            pp = Fraction(p) + 3
            rows = [mkrow("FOO", D(0), "Buy", "", shares="10", aps=gen.dec_str(pp, 2), cur="CAD")]
            computed = Fraction(-4) * 2    # sell 4 at pp-2, rebuy 4 -> all superficial
            v = computed + (Fraction(5, 1000) if kind == "sfl_mismatch" else Fraction(1, 2000))
            rows.append(mkrow("FOO", D(50), "Sell", "", shares="4", aps=gen.dec_str(pp - 2, 2), cur="CAD",
                              sfl="-" + gen.dec_str(-v, 4)))
            rows.append(mkrow("FOO", D(50), "SfLA", "", shares="1", aps=gen.dec_str(-v, 4)))
            rows.append(mkrow("FOO", D(55), "Buy", "", shares="4", aps=gen.dec_str(pp - 2, 2), cur="CAD"))
        elif kind == "oversell_other_af":
            rows.append(mkrow("FOO", D(5), "Buy", af2, shares="2", aps=p, cur="CAD"))
            rows.append(mkrow("FOO", D(50), "Sell", af2, shares=str(q), aps=p, cur="CAD"))
        elif kind == "late_error":
            rows.append(mkrow("FOO", D(40), "Sell", "", shares="1", aps=gen.dec_str(Fraction(p) + 7, 2), cur="CAD"))
            rows.append(mkrow("FOO", D(400), "Sell", "", shares="1", aps=gen.dec_str(Fraction(p) + 9, 2), cur="CAD"))
            rows.append(mkrow("FOO", D(800), "Sell", "", shares=str(q), aps=p, cur="CAD"))
        allrows = rows + sec2
        if rng.random() < 0.5:
            allrows = gen.admissible_shuffle(rng, allrows)
        out.append(("reason " + kind, {"rows": allrows, "init": {}, "features": ["reason_family", kind]}))
    return out


# ---------------------------------------------------------------------------------------

def history_to_case(cid, h, want=("model",), full=True, costs=False):
    rows = h["rows"]
    if h.get("chunks"):
        # the same rows given as several files, in order (each file has its own header line)
        cols = gen.used_cols(rows)
        files = [["in%d.csv" % i, gen.rows_to_csv(ch, cols)] for i, ch in enumerate(h["chunks"]) if ch]
        return {"id": cid, "files": files, "init": gen.init_args(h.get("init", {})), "full": full, "costs": costs, "want": list(want)}
    return {"id": cid, "files": [["in.csv", gen.rows_to_csv(rows, gen.used_cols(rows))]],
            "init": gen.init_args(h.get("init", {})), "full": full, "costs": costs,
            "want": list(want)}


def sum_gains_by_year(table, col):
    tot = {}
    for r in table["rows"]:
        g, _ = ref.parse_gain_cell(r[col["Cap. Gain"]])
        if g is not None:
            y = int(r[col["Settl. Date"]][:4])
            tot[y] = tot.get(y, Fraction(0)) + g
    return tot


def judge(prop, h, res):
    """-> dict(unjudged, findings:[json], feats:set, counts:dict, nontrivial:bool)"""
    out = {"unjudged": False, "findings": [], "feats": set(h.get("features", [])), "counts": {},
           "nontrivial": False, "why_unjudged": None}
    if "panic" in res or "crash" in res or "hang" in res:
        out["unjudged"] = True
        out["why_unjudged"] = "panic/crash (C05's business)"
        return out
    if not res.get("ok"):
        out["unjudged"] = True
        out["why_unjudged"] = "whole-run error: " + str(res.get("err"))[:80]
        return out
    an = ref.analyze(h, res)
    c = out["counts"]
    multi_cur_comm = any(r.get("ccur") and (r.get("ccur") or "").upper() != (r.get("cur") or "CAD").upper()
                         for r in h["rows"])
    tables = res["tables"]
    for sec, A in an.items():
        c["rows"] = c.get("rows", 0) + A.rows_judged
        c["loss_sales"] = c.get("loss_sales", 0) + A.loss_sales
        c["sfl_sales"] = c.get("sfl_sales", 0) + A.sfl_sales
        c["c03_prefixes"] = c.get("c03_prefixes", 0) + A.c03_prefixes
        c["securities"] = c.get("securities", 0) + 1
        out["feats"] |= A.features
        for f in A.findings:
            if f.prop == prop:
                out["findings"].append(f.to_json())
        if prop == "C01" and (A.nonterminating or A.interleaved or multi_cur_comm):
            out["nontrivial"] = True
        if prop == "C02" and A.features & {"boundary_offset", "split_in_window", "registered_buyer", "user_sfl"}:
            out["nontrivial"] = True
        if prop == "C03" and "multi_buyer_sfl" in A.features:
            out["nontrivial"] = True
        if prop == "C02":
            # "is rejected when it differs from the computed value by more than 0.001 unless marked forced"
            declared_reject = A.ref_reject is not None and A.ref_reject[1] in ("sfl_mismatch", "sfl_no_loss")
            tool_declared = A.tool_error is not None and "superficial loss was specified" in A.tool_error
            if declared_reject and A.tool_error is None:
                out["findings"].append({"prop": "C02", "sec": sec, "what": "a declared superficial loss that contradicts the computed one (or a sale without loss) is accepted",
                                        "detail": {"reason": A.ref_reject[1], "date": str(A.ref_reject[0].td), "declared": A.ref_reject[0].row.get("sfl")}})
            if tool_declared and not declared_reject and not ("sfl_threshold_tie" in A.features and tie_rejection_consistent(A.tool_error)):
                out["findings"].append({"prop": "C02", "sec": sec, "what": "a declared superficial loss within 0.001 of the computed one (or forced) is rejected",
                                        "detail": {"msg": A.tool_error}})
        if prop == "C04":
            judge_c04(out, h, sec, A, tables.get(sec))
    if prop == "C04":
        judge_c04_aggregate(out, h, an, res)
    return out


def judge_c04(out, h, sec, A, table):
    c = out["counts"]
    if table is None:
        return
    if A.ref_reject is not None:
        ev, reason, idx = A.ref_reject
        c["rejected_by_model"] = c.get("rejected_by_model", 0) + 1
        out["feats"].add("reject_" + reason)
        out["nontrivial"] = True
        if A.tool_error is None:
            out["findings"].append({"prop": "C04", "sec": sec, "what": "impossible history accepted",
                                    "detail": {"reason": reason, "date": str(ev.td)}})
        else:
            # message must identify an offending transaction
            evs = ref.events_by_security(h["rows"])[sec]
            dates = {str(e.td) for e in evs[idx:]}
            if not any(d in A.tool_error for d in dates):
                dust = lookahead_dust(h, sec, A.tool_error)
                if rounding_margin(A.tool_error) or dust:
                    # the tool stopped at an earlier, valid transaction because of a rounded share count
                    out["findings"].append({"prop": "C04", "sec": sec, "what": "valid history rejected",
                                            "detail": {"msg": A.tool_error, "rounding_margin": rounding_margin(A.tool_error), "lookahead_dust": dust,
                                                       "note": "rejected before the genuinely offending transaction of %s" % ev.td}})
                else:
                    out["findings"].append({"prop": "C04", "sec": sec, "what": "rejection message does not identify the transaction",
                                            "detail": {"msg": A.tool_error, "reason": reason, "date": str(ev.td)}})
            if sec not in A.tool_error and False:
                pass
    else:
        if (A.tool_error is not None and "sfl_threshold_tie" in A.features and "superficial loss was specified" in A.tool_error
                and tie_rejection_consistent(A.tool_error)):
            c["threshold_ties_rejected"] = c.get("threshold_ties_rejected", 0) + 1     # undecidable at the threshold itself
        elif A.tool_error is not None:
            margin = rounding_margin(A.tool_error)
            out["findings"].append({"prop": "C04", "sec": sec, "what": "valid history rejected",
                                    "detail": {"msg": A.tool_error, "rounding_margin": margin,
                                               "lookahead_dust": lookahead_dust(h, sec, A.tool_error)}})
        else:
            c["accepted"] = c.get("accepted", 0) + 1
            if not A.consumed_all:
                out["findings"].append({"prop": "C04", "sec": sec, "what": "accepted history but rows are missing from the report",
                                        "detail": {"rows": A.tool_rows}})
        if "full_liquidation" in h.get("features", []) and any(r["action"] == "Split" for r in h["rows"]):
            out["nontrivial"] = True
        if set(h.get("features", [])) & {"sell_all_after_rsplit", "sell_all_after_split_loss", "roc_exact", "oversell_exact"}:
            out["nontrivial"] = True
    # an errored security shows no gain totals of its own
    if A.tool_error is not None:
        foot = table["footer"]
        vals = [v for v in foot[9].split("\n")] if len(foot) > 9 else []
        bad = [v for v in vals if ref.money(v) not in (None, Fraction(0))]
        if bad:
            out["findings"].append({"prop": "C04", "sec": sec, "what": "rejected security still shows capital-gain totals",
                                    "detail": {"footer": foot[9]}})


def lookahead_dust(h, sec, msg):
    """Input-side description of a known rounding residue: the tool says a share count 'went below zero in 30-day
    period after sale (on D)', while in exact arithmetic the sale traded on D leaves its affiliate (or all
    affiliates together) with exactly zero shares, and an earlier split of the security has a factor that does not
    terminate in decimal (so the tool's balance, or the look-ahead's re-expressed quantities, carry a rounded division)."""
    m = re.search(r"went below zero in 30-day period after sale \(on (\d{4}-\d{2}-\d{2})\)", msg or "")
    if not m:
        return False
    D = m.group(1)
    evs = ref.events_by_security(h["rows"]).get(sec, [])
    init = h.get("init", {}).get(sec)
    led = ref.Ledger(init)
    for i, e in enumerate(evs):
        if ref.apply_event(evs, i, led, None) is not None:
            return False
        if e.action == "Sell" and str(e.td) == D:
            zero = led.shares(e.af) == 0 or sum(led.sh.values(), Fraction(0)) == 0
            if not zero:
                continue
            for x in evs[:i]:
                if x.action == "Split":
                    for q in (x.factor, 1 / x.factor):
                        if any(pf not in (2, 5) for pf in ref.prime_factors_small(q.denominator)):
                            return True
    return False


def tie_rejection_consistent(msg):
    """For a declared value on the 0.001 threshold: the tool quotes '(specified) and the computed value (computed)';
    the rejection is tolerated only if those two numbers are strictly more than 0.001 apart (rounding noise in the
    computed value), not when they are exactly 0.001 apart."""
    m = re.search(r"specified value \((-?[\d.]+)\) and the computed value \((-?[\d.]+)\)", msg or "")
    if not m:
        return False
    return abs(Fraction(m.group(1)) - Fraction(m.group(2))) > Fraction(1, 1000)


def rounding_margin(msg):
    """If a rejection message quotes two numbers that differ by less than 1e-15, or one number that is less than 1e-15
    (but not zero) away from a number with at most 10 decimals, return True: the quoted quantity is rounding dust."""
    nums = [Fraction(x) for x in re.findall(r"(?<![\d-])(\d+\.\d+|\d+)(?![\d-])", msg)]
    for x in nums:
        near = Fraction(round(x * 10 ** 10), 10 ** 10)
        if 0 < abs(x - near) < Fraction(1, 10 ** 15):
            return True
    for i in range(len(nums)):
        for j in range(i + 1, len(nums)):
            d = abs(nums[i] - nums[j])
            if 0 < d < Fraction(1, 10 ** 15):
                return True
    return False


def judge_c04_aggregate(out, h, an, res):
    """Rejected securities are left out of every capital-gain total."""
    tables = res["tables"]
    want = {}
    for sec, A in an.items():
        t = tables.get(sec)
        if t is None or A.ref_reject is not None or A.tool_error is not None:
            continue
        col = {hh: i for i, hh in enumerate(t["header"])}
        for y, g in sum_gains_by_year(t, col).items():
            want[y] = want.get(y, Fraction(0)) + g
    got = {}
    total = None
    for r in res["agg"]["rows"]:
        if r[0] == "Since inception":
            total = ref.money(r[1])
        else:
            got[int(r[0])] = ref.money(r[1])
    tol = Fraction(1, 10 ** 12)
    years = set(want) | set(got)
    for y in years:
        if abs(want.get(y, Fraction(0)) - (got.get(y) or Fraction(0))) > tol:
            out["findings"].append({"prop": "C04", "sec": "*", "what": "aggregate gains include a rejected security or miss an accepted one",
                                    "detail": {"year": y, "aggregate": str(got.get(y)), "accepted_sum": str(want.get(y, 0))}})
            break
    if total is not None and abs(total - sum(want.values(), Fraction(0))) > tol:
        out["findings"].append({"prop": "C04", "sec": "*", "what": "'Since inception' differs from the accepted securities' total",
                                "detail": {"aggregate": str(total), "accepted_sum": str(sum(want.values(), Fraction(0)))}})


# ---------------------------------------------------------------------------------------

def build_population(prop, tier, seed):
    """-> list of (cid, name, history)"""
    pop = []
    n = {"quick": 3000, "thorough": 150000}[tier]
    if prop == "C02":
        n = {"quick": 2500, "thorough": 120000}[tier]
        for name, hh in c02_pair_family():
            pop.append((common.case_id("pair", name), name, hh))
        rng = common.rng_for(seed, prop, "user")
        for name, hh in c02_user_sfl_family(rng, 300 if tier == "quick" else 6000):
            pop.append((common.case_id(seed, prop, "user", len(pop)), name, hh))
        for name, hh in c02_triple_family(step=8 if tier == "quick" else 1):
            pop.append((common.case_id("triple", name), name, hh))
    if prop == "C04":
        n = {"quick": 2500, "thorough": 120000}[tier]
        rng = common.rng_for(seed, prop, "reason")
        for name, hh in c04_reason_family(rng, 600 if tier == "quick" else 20000):
            pop.append((common.case_id(seed, prop, "reason", len(pop)), name, hh))
        # declared superficial losses at every distance from the computed one (incl. zero)
        rng = common.rng_for(seed, prop, "user")
        for name, hh in c02_user_sfl_family(rng, 400 if tier == "quick" else 8000):
            pop.append((common.case_id(seed, prop, "user", len(pop)), name, hh))
    for i in range(n):
        rng = common.rng_for(seed, prop, i)
        k = profile(prop, rng)
        hh = gen.HistoryGen(rng, k).gen()
        if hh["rows"] and rng.random() < 0.08:
            # cells that carry no information: a split ratio noted on an ordinary row (the column only means something on
            # Split rows), and the currency left blank where it is CAD (also when the commission has a currency of its own)
            for r in hh["rows"]:
                if r["action"] in ("Buy", "Sell") and not r.get("split") and rng.random() < 0.3:
                    r["split"] = rng.choice(["2-for-1", "1-for-2", "3-for-2"])
                if r["action"] in ("Buy", "Sell") and (r.get("cur") or "") == "CAD" and not (r.get("fx") or "") and rng.random() < 0.4:
                    r["cur"] = ""
        if hh["rows"] and rng.random() < 0.08:
            # security names are names as written, whatever their case (also in opening positions)
            hh = rename_secs_case(hh, rng.choice([["brk.b", "vfv.to", "xeqt", "zag"], ["Foo", "bAR", "Qqq.To", "Abc"]]))
        pop.append((common.case_id(seed, prop, i), "random #%d" % i, hh))
    return pop


def rename_secs_case(h, names):
    secs = sorted({r["sec"] for r in h["rows"]} | set(h.get("init", {})))
    m = {s_: names[i % len(names)] + ("" if i < len(names) else str(i)) for i, s_ in enumerate(secs)}
    rows = [dict(r, sec=m[r["sec"]]) for r in h["rows"]]
    return {"rows": rows, "init": {m[s_]: v for s_, v in h.get("init", {}).items()}, "features": h.get("features", [])}


def _worker(args):
    prop, shard = args
    cases = [history_to_case(cid, h) for cid, name, h in shard]
    results = common.run_harness("app", cases, tag="led-%s" % prop, nproc=1)
    out = []
    for cid, name, h in shard:
        r = results.get(cid, {"crash": "missing"})
        j = judge(prop, h, r)
        j["cid"] = cid
        j["name"] = name
        j["feats"] = sorted(j["feats"])
        if j["findings"]:
            j["history"] = h
        elif len(out) < 2:
            j["history_sample"] = {"name": name, "csv": gen.rows_to_csv(h["rows"], gen.used_cols(h["rows"]))[:1500],
                                   "init": gen.init_args(h.get("init", {}))}
        out.append(j)
    return out


RULES = {
    "C01": "histories from the state-aware generator (all five actions, 1-4 affiliates, CAD/USD/EUR with explicit rates, third-currency commissions, opening positions); non-trivial = contains a sale whose per-share cost does not terminate in decimal, or >=2 interleaved affiliates, or a commission currency different from the transaction currency; distinct = distinct case hash",
    "C02": "exhaustive pair family (one loss sale + one event of each kind by each affiliate kind at every settlement offset -35..35, both same-day orders) + user-supplied SfL family + random multi-event windows biased to offsets 28-32; non-trivial = a judged loss sale with an event at |offset| in {29,30,31}, or a split inside its window, or a registered buyer, or a user-supplied value",
    "C03": "2-4 affiliate histories with overlapping windows (a registered-buyer slice for the inequality clauses); identity checked at every prefix that satisfies the stated precondition; non-trivial = history with a denied loss that has >=2 non-registered buying affiliates",
    "C04": "reason family (each rejection reason and the valid boundary case next to it, plus a healthy second security) + random histories with deliberately broken rows at rate 0-10%; non-trivial = the exact model finds a rejection reason, or the history fully liquidates after a split / sits exactly on a boundary",
}


def run(prop, tier):
    common.build()
    seed = common.seed()
    V = Verdict(prop, tier)
    V.rule = RULES[prop]
    pop = build_population(prop, tier, seed)
    nshards = common.NPROC * 4 if len(pop) > 2000 else common.NPROC
    shards = [pop[i::nshards] for i in range(nshards)]
    shards = [s for s in shards if s]
    with multiprocessing.Pool(common.NPROC) as pool:
        parts = pool.map(_worker, [(prop, s) for s in shards])
    totals = {}
    whys = {}
    feats_seen = {}
    for part in parts:
        for j in part:
            V.count()
            if j["unjudged"]:
                V.unjudged += 1
                w = (j["why_unjudged"] or "")[:60]
                whys[w] = whys.get(w, 0) + 1
                continue
            for k, v in j["counts"].items():
                totals[k] = totals.get(k, 0) + v
            for f in j["feats"]:
                feats_seen[f] = feats_seen.get(f, 0) + 1
            if j["nontrivial"]:
                V.nontriv(j["cid"])
            if "history_sample" in j:
                V.sample(j["history_sample"])
            kinds_done = set()
            for f in j["findings"]:
                sig = {"what": f["what"], "msg": str(f["detail"].get("msg", "")),
                       "rounding_margin": f["detail"].get("rounding_margin"),
                       "lookahead_dust": bool(f["detail"].get("lookahead_dust")),
                       "reason": f["detail"].get("reason")}
                kind_ = (f["what"], sig["rounding_margin"], sig["lookahead_dust"], sig["reason"])
                if kind_ in kinds_done:
                    continue          # one report per kind of finding and history (a known kind must not hide another)
                kinds_done.add(kind_)
                V.violation("%s: %s %s [%s]" % (f["sec"], f["what"], json.dumps(f["detail"])[:300], j["name"]),
                            {"kind": "history", "prop": prop, "name": j["name"], "history": j.get("history"),
                             "finding": f}, sig)
    if prop == "C04":
        output_modes(V, pop, tier)
    for k, v in totals.items():
        V.extra["judged_" + k] = v
    V.extra["unjudged_reasons"] = whys
    V.extra["features_seen"] = feats_seen
    if prop == "C02":
        V.extra["pair_family_cases"] = len(c02_pair_family())
        V.extra["pair_family_exhaustive"] = True
        V.extra["triple_family_cases"] = len(c02_triple_family(step=8 if tier == "quick" else 1))
        V.extra["triple_family_exhaustive"] = (tier == "thorough")
    floors = {"C01": {"judged_rows": 1000}, "C02": {"judged_loss_sales": 500},
              "C03": {"judged_c03_prefixes": 500}, "C04": {"judged_rejected_by_model": 50}}
    return V.finish(floor_eval=100, floor_nontrivial=10, floors=floors[prop])


def output_modes(V, pop, tier):
    """C04(c): a rejection message reaches the user in every output mode: text on stdout, --csv-output-dir, and the
    text writer over a string buffer that the web UI uses."""
    common.build(bins=True)
    k = {"quick": 40, "thorough": 400}[tier]
    sample = [x for x in pop if "reason_family" in x[2].get("features", [])][:k]
    wd = common.workdir("c04modes")
    try:
        lib = common.run_harness("app", [history_to_case(cid, h, want=("model", "text")) for cid, name, h in sample], tag="c04lib")
        for cid, name, h in sample:
            r = lib.get(cid, {})
            if not r.get("ok"):
                continue
            msgs = {sec: t["errors"] for sec, t in r["tables"].items() if t["errors"]}
            inp = os.path.join(wd, cid + ".csv")
            with open(inp, "w") as f:
                f.write(gen.rows_to_csv(h["rows"], gen.used_cols(h["rows"])))
            init = []
            for a in gen.init_args(h.get("init", {})):
                init += ["-b", a]
            od = os.path.join(wd, cid + "-out")
            rt = common.run_cli("acb", [inp] + init, home=wd)
            rc = common.run_cli("acb", [inp, "-d", od] + init, home=wd)
            V.bump("output_mode_runs", 3)
            text_all = rt["out"].decode("utf-8", "replace") + rt["err"].decode("utf-8", "replace")
            csv_all = rc["out"].decode("utf-8", "replace") + rc["err"].decode("utf-8", "replace")
            if os.path.isdir(od):
                for fn in os.listdir(od):
                    with open(os.path.join(od, fn), errors="replace") as f:
                        csv_all += f.read()
            for sec, errs in msgs.items():
                V.bump("rejections_followed_through_modes")
                for e in errs:
                    first_line = e.split("\n")[0]
                    sharing = sum(1 for es in msgs.values() if any(x.split("\n")[0] == first_line for x in es))
                    if sharing > 1:
                        for mode, blob in (("text", text_all), ("library text writer", r.get("text", "") + r.get("text_stderr", ""))):
                            if blob.count(first_line) < sharing:
                                V.violation("%d securities are rejected with the message %r but %s mode shows it %d time(s) [%s]"
                                            % (sharing, first_line[:120], mode, blob.count(first_line), name),
                                            {"kind": "history", "prop": "C04", "name": name, "history": h, "finding": {"what": "message shown once", "mode": mode}},
                                            {"what": "rejection message lost in an output mode", "mode": mode})
                                break
                    for mode, blob in (("text", text_all), ("--csv-output-dir", csv_all), ("library text writer", r.get("text", "") + r.get("text_stderr", ""))):
                        if first_line not in blob:
                            V.violation("rejection message of %s does not reach the user in %s mode: %r [%s]" % (sec, mode, first_line[:150], name),
                                        {"kind": "history", "prop": "C04", "name": name, "history": h, "finding": {"what": "message lost", "mode": mode}},
                                        {"what": "rejection message lost in an output mode", "mode": mode})
            # CSV-directory mode into a directory that already holds a longer, older report: what is left for each
            # security must be exactly the rows the library shows (a correct prefix for a rejected one, nothing stale)
            import csv as _csv
            od2 = os.path.join(wd, cid + "-out2")
            common.prefill_output_dir(od2, [inp])
            rf = common.run_cli("acb", [inp, "-d", od2, "--print-full-values"] + init, home=wd)
            V.bump("output_mode_runs")
            for sec, t in list(r["tables"].items()) + [("aggregate-gains", r["agg"])]:
                pth = os.path.join(od2, sec + ".csv")
                if not os.path.exists(pth):
                    continue
                with open(pth, newline="", errors="replace") as f:
                    got = list(_csv.reader(f))
                want = [t["header"]] + t["rows"] + ([t["footer"]] if t["footer"] else [])
                want += [[n_] + [""] * (len(t["header"]) - 1) for n_ in t["notes"]]
                if got != want:
                    V.violation("--csv-output-dir into a reused directory: %s.csv is not the table the library reports (%d lines, expected %d) [%s]"
                                % (sec, len(got), len(want), name),
                                {"kind": "history", "prop": "C04", "name": name, "history": h, "finding": {"what": "csv file differs", "sec": sec}},
                                {"what": "csv output differs from the reported table"})
                    break
    finally:
        common.cleanup(wd)


def replay(rec):
    case = rec["case"]
    prop = case["prop"]
    h = case["history"]
    common.build()
    res = common.run_harness("app", [history_to_case("replay", h)], tag="replay", nproc=1)["replay"]
    j = judge(prop, h, res)
    print(gen.rows_to_csv(h["rows"], gen.used_cols(h["rows"])))
    if j["unjudged"]:
        print("replay: case could not be judged: %s" % j["why_unjudged"])
        return 2
    if j["findings"]:
        for f in j["findings"]:
            print("replay finding:", json.dumps(f))
        print("VIOLATION property=%s replay=%s" % (prop, sys.argv[2]))
        return 1
    print("replay: no finding reproduced")
    return 0


if __name__ == "__main__":
    prop = sys.argv[1]
    sys.argv = [sys.argv[0]] + sys.argv[2:]
    sys.exit(common.main_dispatch(prop, lambda tier: run(prop, tier), replay))
