"""C19: E*TRADE extraction accounts for every benefit and every sold share once."""
import csv
import datetime
import io
import itertools
import json
import os
import sys
from fractions import Fraction

sys.path.insert(0, os.path.dirname(os.path.abspath(__file__)))
import common
import gen
from common import Verdict

PROP = "C19"

COMPANY = {"FOO": "FOO SYSTEMS, INC.", "BAR": "BAR HOLDINGS, INC."}

RSU_TMPL = """

 Release Summary

Account Number 12345678
Tax Payment Method Sell-to-cover
Company Name (Symbol) {company}
({sym})
Award Number {award}
Award Date 05-08-2020
Award Type RSU
Plan 2014
 Release Date {date_dash}
Shares Released {released}
Market Value Per Share ${fmv}
Award Price Per Share $0.000000
Sale Price Per Share ${sale_price}

 Release Details

Calculation of Gain
Market Value ${market_value}
Award Price ($0.00)
Total Gain ${market_value}

Stock Distribution
Award Shares {released}
Shares Sold ({sold})
Shares Issued {issued}

Registration: ETRADE
 Calculation of Taxes
Taxable Gain $ Rate % Amount $
Canada-BC 5,025.00 25.000 1,256.25
Total Tax $1,256.25

Cash Distribution
Total Sale Price ${total_sale}
Total Tax ($1,256.25)
Fee (${fee})
Total Due Participant $137.48

EMPLOYEE STOCK PLAN RELEASE CONFIRMATION
Provided by {company}
JOHN DOE
1 BLAH DRIVE
VANCOUVER, BC CA HOH OHO
 Employee ID: 0001

This information was provided to E*TRADE Securities LLC, a subsidiary of Morgan Stanley, ("E*TRADE") by your company.

08/19/2022 11:00:59 AM ET Page 1 of

1
"""

ESPP_TMPL = """

 Purchase Summary

Account Number 12345678
Company Name (Symbol) {company_split}({sym})
Plan ESP2
Grant Date 08-17-2020
Purchase Begin Date 08-17-2021
Purchase Date {date_dash}
 Shares Purchased to Date in Current Offering
Beginning Balance 0.0000
Shares Purchased {purchased}
Total shares Purchased for Offering {purchased}
Shares Deposited in STREETNAME to
ETRADE {purchased}
{sold_line}
 Purchase Details

Contributions
Foreign Contributions 0.00
Average Exchange Rate $0.790122
Previous Carry Forward $0.00
Current Contributions $0.00
Total Contributions $0.00*

Total Price ($2,422.51)
Carry Forward ($0.00)

Calculation of Gain
Total Value $4,844.58
Total Price ($2,422.51)
Taxable Gain $4,802.27
 Calculation of Shares Purchased
Grant Date Market Value $50.00000
Purchase Value per Share ${fmv}
Purchase Price per Share
        (85.000% of $50.00000) $42.500000
Total Price
        (Shares Purchased x Purchase Price) $2,422.507200
{sale_line}
{tax_line}
Excess of Taxes Applied To

Cash Due Participant

Net Carry Forward $0.00

EMPLOYEE STOCK PLAN PURCHASE CONFIRMATION
Provided by {company}
JOHN DOE
 Employee ID: 0001

08/19/2022 11:09:42 AM ET Page 1 of

1
"""

ESO_TMPL = """
        Account Number 11223344
        Tax Payment Method Sell-to-cover
        Company Name (Symbol) {company}
        ({sym})

        Exercise Type: {ex_type} Registration

        Shares Sold {sold}

        Exercise Details
{grants}
        Exercise Date:  {date_slash}

        Provided by {company}
        John Doe
        Employee ID: 1111
        STOCK PLAN EXERCISE CONFIRMATION
        """

ESO_GRANT = """
        Grant {i}
        Grant Number {num}
        Exercise Market Value ${fmv}
        Shares Exercised {shares}
        Sale Price ${sale_price}
        Comission/Fee ${fee}
"""

PRE_HEAD = """

E*TRADE Securities LLC
P.O. Box 484
Jersey City, NJ 07303-0484

Account Name:
JOHN DOE

Account Number: XXXX-1234
 Use This Deposit Slip Acct: XXXX-1234

Investment Account

JOHN DOE
 TRADE CONFIRMATION

Page 1 of 2

TRADE
DATE SETL
DATE MKT /
CPT SYMBOL /
CUSIP BUY /
SELL QUANTITY PRICE ACCT
TYPE
"""

POST_TMPL = """Morgan Stanley Smith Barney LLC. Member SIPC. The transaction(s) may have been executed with Morgan Stanley & Co. LLC, an
affiliate, which may receive compensation for any such services. E*TRADE is a business of Morgan Stanley.
1 of 2Your Account Number: 123-XXX789-111
Account Type - Cash
JOHN DOE
E*TRADE from Morgan Stanley
(800)-387-2331
This transaction is confirmed in accordance with the information provided on the Conditions and Disclosures page.
Trade Date Settlement Date Quantity Price Settlement Amount
{td} {sd} {qty} {price}
Transaction Type: {act_word}
Description: {company}
Symbol / CUSIP / ISIN: {sym} / 040413106 / US0404131064Principal $1,000.00
{comm_line}Supplemental
{fee_line}Net Amount $1,000.00
Unsolicited trade
Morgan Stanley Smith Barney LLC acted as agent.

2 of 2
{disclosure}"""


def money2(fr):
    return "{:,.2f}".format(float(fr))


def f6(fr):
    return gen.dec_str(Fraction(int(fr * 10 ** 6), 10 ** 6), 6).split(".")[0] + "." + (gen.dec_str(Fraction(int(fr * 10 ** 6), 10 ** 6), 6) + ".").split(".")[1].ljust(6, "0")


def f4(n):
    fr = Fraction(n)
    return "%d.%04d" % (fr.numerator // fr.denominator, (fr - fr.numerator // fr.denominator) * 10000)


def gen_scenario(rng):
    """-> dict(files=[(name, text)], benefits=[...], trades=[...], consistent=bool)"""
    era = rng.choice(["pre", "post"])
    year = rng.choice([2021, 2022]) if era == "pre" else rng.choice([2024, 2025])
    syms = ["FOO"] if rng.random() < 0.75 else ["FOO", "BAR"]
    benefits = []
    trades = []
    eso_unequal = False
    d = datetime.date(year, rng.randint(1, 10), rng.randint(1, 20))
    nb = rng.randint(1, 4)
    award = rng.randint(10000, 99000)
    for bi in range(nb):
        d = d + datetime.timedelta(days=rng.choice([0, 1, 2, 3, 6, 7, 30, 90]))
        sym = rng.choice(syms)
        kind = rng.choice(["RSU", "RSU", "ESPP", "ESO"])
        if kind == "ESO":
            # one exercise confirmation with 1-3 grants; only the last grant carries the (same-day) sale
            ng = rng.randint(1, 3)
            sold = rng.randint(2, 60)
            k = rng.choice([1, 1, 2]) if sold >= 2 else 1
            cuts = sorted(rng.sample(range(1, sold), k - 1)) if k > 1 else []
            qtys = [b_ - a_ for a_, b_ in zip([0] + cuts, cuts + [sold])]
            td = d + datetime.timedelta(days=rng.choice([0, 0, 1]))
            sd = td + datetime.timedelta(days=2)
            base_price = Fraction(rng.randint(5000, 30000), 100)
            own = []
            for q in qtys:
                price = base_price + Fraction(rng.randint(-300, 300), 100)
                price = Fraction(int(price * 1000), 1000) if era == "post" else Fraction(int(price * 100), 100)
                own.append({"sym": sym, "td": td, "sd": sd, "qty": q, "price": price, "comm": Fraction(rng.randint(0, 2500), 100),
                            "fee": Fraction(rng.randint(1, 40), 100), "for": len(benefits) + ng - 1})
            tot = sum(t["qty"] * t["price"] for t in own)
            sale_price = Fraction(int(tot / sold * 100), 100)
            fees = [Fraction(rng.randint(100, 3000), 100) for _ in range(ng)]
            doc = "eso%d" % bi
            for gi in range(ng):
                last = gi == ng - 1
                benefits.append({"kind": "ESO", "sym": sym, "date": d, "released": rng.choice([rng.randint(5, 300), rng.randint(1000, 3000)]), "fmv": Fraction(rng.randint(2000, 30000), 100),
                                 "sold": sold if last else 0, "award": "Option Grant %d" % (award + bi * 10 + gi), "grant_num": award + bi * 10 + gi,
                                 "fee": sum(fees) if last else Fraction(0), "grant_fee": fees[gi], "sale_price": sale_price, "doc": doc,
                                 "ex_type": rng.choice(["Same-Day Sale", "Sell to Cover"]) if gi == 0 else None})
            for b_ in benefits[-ng:]:
                b_["ex_type"] = benefits[-ng]["ex_type"]
            if ng >= 3 and rng.random() < 0.2:
                # the grants of one exercise state different sale prices: which one applies to the sale cannot be told
                for b_ in benefits[-ng:-1]:
                    b_["sale_price"] = sale_price + Fraction(3, 2)
                eso_unequal = True
            trades += own
            continue
        released = rng.randint(5, 200)
        if kind == "ESPP" and rng.random() < 0.3:
            released = Fraction(released * 10000 + rng.randint(1, 9999), 10000)      # plans buy fractional shares (57.3421)
        fmv = Fraction(rng.randint(2000, 30000), 100)
        sold = rng.randint(1, max(1, int(released) // 2)) if (kind == "RSU" or rng.random() < 0.7) else 0
        b = {"kind": kind, "sym": sym, "date": d, "released": released, "fmv": fmv, "sold": sold, "award": "R%d" % (award + bi),
             "fee": Fraction(rng.randint(1, 3000), 100)}
        # its sell-to-cover trades
        own = []
        if sold:
            k = rng.choice([1, 1, 2, 3]) if sold >= 3 else 1
            if sold >= 12 and rng.random() < 0.06:
                k = rng.randint(9, 11)          # an illiquid day: the sell-to-cover goes out in many small fills
            cuts = sorted(rng.sample(range(1, sold), k - 1)) if k > 1 else []
            qtys = [b_ - a_ for a_, b_ in zip([0] + cuts, cuts + [sold])]
            td = d + datetime.timedelta(days=rng.choice([0, 1, 1, 2, 2, 3, 5]))
            sd = td + datetime.timedelta(days=rng.choice([1, 2, 2, 4]))
            for q in qtys:
                price = fmv + Fraction(rng.randint(-500, 900), 100)
                if price <= 0:
                    price = fmv
                price = Fraction(int(price * 1000), 1000) if era == "post" else Fraction(int(price * 100), 100)
                own.append({"sym": sym, "td": td, "sd": sd, "qty": q, "price": price,
                            "comm": Fraction(rng.randint(0, 2500), 100) if rng.random() < 0.8 else None,
                            "fee": Fraction(rng.randint(1, 40), 100) if (rng.random() < 0.8 or era == "pre") else None, "for": bi})
            if len(own) == 2 and sold % 2 == 0 and rng.random() < 0.35:
                # two fills that are equal in every printed field (separate confirmations of identical content)
                own[0]["qty"] = own[1]["qty"] = sold // 2
                own[1] = dict(own[0])
            tot = sum(t["qty"] * t["price"] for t in own)
            b["sale_price"] = Fraction(int(tot / sold * 10 ** 6), 10 ** 6)
        else:
            b["sale_price"] = None
        if kind in ("ESPP", "RSU") and sold and rng.random() < 0.12:
            # a sale price of four figures is printed with a thousands separator ($1,004.250000)
            b["price_with_comma"] = True
            for t in own:
                t["price"] += 1000
        benefits.append(b)
        trades += own
    # extra manual sales
    for mi in range(rng.choice([0, 0, 1, 2, 3])):
        bref = rng.choice(benefits)
        td = bref["date"] + datetime.timedelta(days=rng.choice([-10, -1, 0, 1, 2, 5, 6, 7, 40]))
        q = rng.choice([bref["sold"] or 3, rng.randint(1, 40), 5, 10])
        price = bref["fmv"] + Fraction(rng.randint(2000, 6000), 100)     # clearly away from the sell-to-cover price
        price = Fraction(int(price * 1000), 1000) if era == "post" else Fraction(int(price * 100), 100)
        if era == "post" and rng.random() < 0.3:
            price += Fraction(rng.randint(1, 99), 100000)       # an average fill price quoted to five decimals
        trades.append({"sym": rng.choice(syms), "td": td, "sd": td + datetime.timedelta(days=2), "qty": q, "price": price,
                       "comm": Fraction(495, 100), "fee": Fraction(rng.randint(1, 30), 100), "for": None})
    # open-market purchases: confirmations that can never be part of a sell-to-cover
    for pi in range(rng.choice([0, 0, 0, 1, 2])):
        bref = rng.choice(benefits)
        td = bref["date"] + datetime.timedelta(days=rng.choice([-3, 0, 1, 2, 4, 20]))
        q = rng.choice([bref["sold"] or 4, rng.randint(1, 40)])
        price = bref["fmv"] + Fraction(rng.randint(-300, 300), 100)
        if price <= 0:
            price = bref["fmv"]
        price = Fraction(int(price * 1000), 1000) if era == "post" else Fraction(int(price * 100), 100)
        trades.append({"sym": bref["sym"], "td": td, "sd": td + datetime.timedelta(days=2), "qty": q, "price": price,
                       "comm": Fraction(495, 100), "fee": Fraction(rng.randint(1, 30), 100), "for": None, "act": "Buy"})
    manual = [t for t in trades if t["for"] is None]
    if manual and rng.random() < 0.25:
        trades.append(dict(rng.choice(manual)))       # the same order filled twice: two confirmations of identical content
    consistent = True
    if rng.random() < 0.2 and any(t["for"] is not None for t in trades):
        # lose one sell-to-cover confirmation
        idx = rng.choice([i for i, t in enumerate(trades) if t["for"] is not None])
        lost = trades[idx]
        del trades[idx]
        consistent = False
        if rng.random() < 0.5:
            # ... while an unrelated sale of the same size sits in the window: of another security, or of the
            # same security but traded a day too late / a day before the benefit
            twist = rng.choice(["other_security", "day6", "day_before"])
            b = benefits[lost["for"]]
            other = dict(lost, comm=Fraction(495, 100), fee=Fraction(7, 100))
            other["for"] = None
            if twist == "other_security":
                other["sym"] = "BAR" if lost["sym"] == "FOO" else "FOO"
            elif twist == "day6":
                other["td"] = b["date"] + datetime.timedelta(days=6)
                other["sd"] = other["td"] + datetime.timedelta(days=2)
            else:
                other["td"] = b["date"] - datetime.timedelta(days=1)
                other["sd"] = other["td"] + datetime.timedelta(days=2)
            trades.append(other)
    return {"era": era, "benefits": benefits, "trades": trades, "consistent_by_construction": consistent, "eso_unequal": eso_unequal}


def render_files(rng, sc):
    files = []
    names = []
    done_docs = set()
    for bi, b in enumerate(sc["benefits"]):
        dd = b["date"].strftime("%m-%d-%Y")
        if b["kind"] == "ESO":
            if b["doc"] in done_docs:
                continue
            done_docs.add(b["doc"])
            gs = [x for x in sc["benefits"] if x.get("doc") == b["doc"]]
            grants = "".join(ESO_GRANT.format(i=i + 1, num=g["grant_num"], fmv=money2(g["fmv"]), shares="{:,}".format(g["released"]), sale_price=money2(g["sale_price"]),
                                              fee=fee2(g["grant_fee"])) for i, g in enumerate(gs))
            text = ESO_TMPL.format(company=COMPANY[b["sym"]].replace(",", ""), sym=b["sym"], ex_type=b["ex_type"], sold="{:,}".format(gs[-1]["sold"]),
                                   grants=grants, date_slash=b["date"].strftime("%m/%d/%Y"))
            files.append(("benefit_%d" % bi, text))
            continue
        if b["kind"] == "RSU":
            text = RSU_TMPL.format(company=COMPANY[b["sym"]], sym=b["sym"], award=b["award"], date_dash=dd, released=f4(b["released"]),
                                   fmv=f6(b["fmv"]), sale_price=(lambda sp: sp[0] + "," + sp[1:])(f6(b["sale_price"] + 1000)) if (b.get("price_with_comma") and b["sold"]) else f6(b["sale_price"] or b["fmv"]),
                                   market_value=money2(b["fmv"] * b["released"]),
                                   sold=f4(b["sold"]), issued=f4(b["released"] - b["sold"]), total_sale=money2((b["sale_price"] or 0) * b["sold"]),
                                   fee=gen.dec_str(b["fee"], 2) if "." in gen.dec_str(b["fee"], 2) else gen.dec_str(b["fee"], 2) + ".00")
        else:
            comp = COMPANY[b["sym"]]
            split = comp.rsplit(" ", 1)
            sold_line = "\nShares Sold to Cover Taxes %s\n" % f4(b["sold"]) if b["sold"] else ""
            sale_line = "Sale Price for Shares Sold to Cover Taxes $%s\n" % f6(b["sale_price"]) if b["sold"] else ""
            if b.get("price_with_comma") and b["sold"]:
                sp = f6(b["sale_price"] + 1000)
                sale_line = "Sale Price for Shares Sold to Cover Taxes $%s,%s\n" % (sp[0], sp[1:])
            tax_line = " Total Taxes Collected at purchase ($2,200.21) Fees ($%s)\nValue Of Shares Sold $2,500.0000\nAmount in Excess of Tax Due $202.0700\n" % fee2(b["fee"]) if b["sold"] else ""
            text = ESPP_TMPL.format(company=comp, company_split=split[0] + "\n" + split[1], sym=b["sym"], date_dash=dd, purchased=f4(b["released"]),
                                    fmv=f6(b["fmv"]), sold_line=sold_line, sale_line=sale_line, tax_line=tax_line)
        files.append(("benefit_%d" % bi, text))
    if sc["era"] == "pre":
        # trades of the same trade date share a confirmation document
        by_day = {}
        for t in sc["trades"]:
            by_day.setdefault(t["td"], []).append(t)
        for di, (td, ts) in enumerate(sorted(by_day.items())):
            body = PRE_HEAD
            for t in ts:
                l1 = "%s %s 6 1 %s %s %d $%s Stock Plan PRINCIPAL $%s\n" % (td.strftime("%m/%d/%y"), t["sd"].strftime("%m/%d/%y"), t["sym"],
                                                                             "BUY" if t.get("act") == "Buy" else "SELL", t["qty"],
                                                                             fee2(t["price"]), money2(t["price"] * t["qty"]))
                l2 = "%s SYSTEMS INC COM" % t["sym"]
                if t["comm"] is not None:
                    l2 += " COMMISSION $%s\n" % fee2(t["comm"])
                    if t["fee"] is not None:
                        l2 += "FEE $%s\n" % fee2(t["fee"])
                elif t["fee"] is not None:
                    l2 += " FEE $%s\n" % fee2(t["fee"])
                else:
                    l2 += "\n"
                body += l1 + l2 + "NET AMOUNT $%s\n\n" % money2(t["price"] * t["qty"])
            body += "\n237 9984 PBA 1 8397 1 of 1 C EDLV AFPEDLV 16/02/22 21:40 001\n JOHN DOE\n"
            files.append(("trade_%d" % di, body))
    else:
        for ti, t in enumerate(sc["trades"]):
            text = POST_TMPL.format(td=t["td"].strftime("%m/%d/%Y"), sd=t["sd"].strftime("%m/%d/%Y"), qty=t["qty"], price=price3(t["price"]),
                                    act_word="Bought" if t.get("act") == "Buy" else "Sold",
                                    disclosure=rng.choice(["", "", "Please review this trade confirmation carefully and report discrepancies.\n",
                                                           "Conditions and disclosures: this Trade Confirmation is subject to the terms overleaf.\n"]),
                                    company=COMPANY[t["sym"]], sym=t["sym"],
                                    comm_line="Commission $%s\n" % fee2(t["comm"]) if t["comm"] is not None else "",
                                    fee_line="Transaction Fee $%s\n" % fee2(t["fee"]) if t["fee"] is not None else "")
            files.append(("trade_%d" % ti, text))
    # file names: shuffled prefixes, so that the (sorted) processing order varies
    order = list(range(len(files)))
    rng.shuffle(order)
    out = []
    same_basenames = rng.random() < 0.5
    for rank, i in enumerate(order):
        if same_basenames:
            # downloads kept in one folder per event, all with the site's default file names
            base = "trade_conf.txt" if files[i][0].startswith("trade") else "confirmation.txt"
            out.append(("%02d_%s/%s" % (rank, rng.choice(["dl", "etrade", "x"]), base), files[i][1]))
        else:
            out.append(("%02d_%s.txt" % (rank, files[i][0]), files[i][1]))
    return out


def price3(fr):
    s = gen.dec_str(Fraction(int(fr * 100000), 100000), 5)
    if "." not in s:
        s += ".00"
    elif len(s.split(".")[1]) == 1:
        s += "0"
    return s


def fee2(fr):
    s = gen.dec_str(Fraction(int(fr * 100), 100), 2)
    if "." not in s:
        s += ".00"
    elif len(s.split(".")[1]) == 1:
        s += "0"
    return s


class SearchTooLarge(Exception):
    pass


def subsets_with_sum(idx, qty, target):
    """All subsets (as tuples of indices) of idx whose quantities add up to target; quantities are positive, so the
    search is cut as soon as a partial sum exceeds the target (far fewer nodes than 2^n for many small fills)."""
    idx = sorted(idx, key=lambda i: -qty[i])
    suffix = [0] * (len(idx) + 1)
    for k in range(len(idx) - 1, -1, -1):
        suffix[k] = suffix[k + 1] + qty[idx[k]]
    out = []

    def go(k, left, acc):
        if left == 0:
            if acc:
                out.append(tuple(acc))
            return
        if len(out) > 20000:
            raise SearchTooLarge()       # the set is left unjudged rather than judged on a partial enumeration
        if k == len(idx) or left < 0 or suffix[k] < left:
            return
        acc.append(idx[k])
        go(k + 1, left - qty[idx[k]], acc)
        acc.pop()
        go(k + 1, left, acc)
    go(0, target, [])
    return out


def feasible_assignment(benefits, trades):
    """Is there a way to give every benefit with sold shares a disjoint set of same-security sales traded within
    [date, date+5 days] whose quantities add up? (exhaustive search)"""
    todo = [b for b in benefits if b["sold"]]

    def rec(bi, avail):
        if bi == len(todo):
            return True
        b = todo[bi]
        cands = [i for i in avail if trades[i]["sym"] == b["sym"] and trades[i].get("act", "Sell") == "Sell"
                 and b["date"] <= trades[i]["td"] <= b["date"] + datetime.timedelta(days=5)]
        for combo in subsets_with_sum(cands, {i: trades[i]["qty"] for i in cands}, b["sold"]):
            if rec(bi + 1, [i for i in avail if i not in combo]):
                return True
        return False
    return rec(0, list(range(len(trades))))


def judge(sc, res):
    if "panic" in res:
        return {"what": "extractor panicked", "panic": res["panic"]}
    benefits, trades = sc["benefits"], sc["trades"]
    if sc.get("eso_unequal"):
        if res.get("ok"):
            return {"what": "an option exercise whose grants state different sale prices is accepted (a guess, not an error)", "out": res.get("out", "")[:300]}
        return None if (res.get("err") or "").strip() else {"what": "failure without a message"}
    feasible = feasible_assignment(benefits, trades)
    if not res.get("ok"):
        if (any(b.get("price_with_comma") for b in benefits) and not res.get("out", "").strip()
                and ("sell-to-cover fields" in str(res.get("err")) or "Average reported sale price: None" in str(res.get("err"))
                     or "Sale Price Per Share" in str(res.get("err")))):
            return None      # the four-figure price layout is reported as unreadable, with the benefit named: refused, not guessed
        if feasible and sc["consistent_by_construction"]:
            return {"what": "a consistent set of confirmations is rejected", "err": res.get("err")}
        if not (res.get("err") or "").strip():
            return {"what": "failure without a message"}
        if res.get("out", "").strip():
            return {"what": "rows were emitted although the run failed", "out": res["out"][:200]}
        return None
    if not feasible:
        return {"what": "a sell-to-cover that cannot be matched was guessed instead of reported", "out": res["out"][:400]}
    rows = list(csv.DictReader(io.StringIO(res["out"], newline="")))
    # rows ordered by settlement date
    sds = [r["settlement date"] for r in rows]
    if sds != sorted(sds):
        return {"what": "rows are not ordered by settlement date", "dates": sds}
    is_manual = lambda r: r["memo"].strip().endswith("(manual trade)")
    buys = [r for r in rows if r["action"] == "Buy" and not is_manual(r)]
    sells = [r for r in rows if r["action"] == "Sell"]
    # one purchase per benefit
    want_buys = sorted((b["sym"], b["date"].isoformat(), Fraction(b["released"]), b["fmv"]) for b in benefits)
    got_buys = sorted((r["security"], r["trade date"], Fraction(r["shares"]), Fraction(r["amount/share"])) for r in buys)
    if want_buys != got_buys:
        return {"what": "purchases do not match the benefits (one per benefit, released shares at FMV on the release/purchase date)",
                "tool": [[str(x) for x in t] for t in got_buys], "expected": [[str(x) for x in t] for t in want_buys]}
    if any(r["currency"] != "USD" for r in rows):
        return {"what": "row not in USD"}
    manual = [r for r in rows if is_manual(r)]
    stc = [r for r in sells if not is_manual(r)]
    avail = list(range(len(trades)))
    for r in manual:
        key = (r["action"], r["security"], r["trade date"], r["settlement date"], Fraction(r["shares"]), Fraction(r["amount/share"]), Fraction(r["commission"]))
        hit = next((i for i in avail if (trades[i].get("act", "Sell"), trades[i]["sym"], trades[i]["td"].isoformat(), trades[i]["sd"].isoformat(), Fraction(trades[i]["qty"]),
                                          trades[i]["price"], (trades[i]["comm"] or 0) + (trades[i]["fee"] or 0)) == key), None)
        if hit is None:
            return {"what": "a manual trade row does not correspond to an unconsumed trade confirmation (own price, quantity, fees)", "row": r}
        avail.remove(hit)
    # each sell-to-cover row belongs to one benefit; the remaining confirmations must be exactly consumed by them
    todo = [b for b in benefits if b["sold"]]
    if len(stc) != len(todo):
        return {"what": "number of sell-to-cover sales differs from the number of benefits with sold shares", "tool": len(stc), "expected": len(todo)}
    if any(trades[i].get("act") == "Buy" for i in avail):
        return {"what": "a purchase confirmation does not appear in the output as a manual trade",
                "missing": [{k: str(v) for k, v in trades[i].items()} for i in avail if trades[i].get("act") == "Buy"]}
    total_tc = {}
    for t in trades:
        if t.get("act", "Sell") != "Sell":
            continue
        total_tc[t["sym"]] = total_tc.get(t["sym"], 0) + t["qty"]
    total_out = {}
    for r in sells:
        total_out[r["security"]] = total_out.get(r["security"], 0) + Fraction(r["shares"])
    if {k: Fraction(v) for k, v in total_tc.items()} != total_out:
        return {"what": "sold shares in the output do not add up to the trade confirmations' shares", "confirmations": {k: str(v) for k, v in total_tc.items()},
                "output": {k: str(v) for k, v in total_out.items()}}

    def rec(bi, avail_, rows_left):
        if bi == len(todo):
            return not avail_
        b = todo[bi]
        for ri, r in enumerate(rows_left):
            if r["security"] != b["sym"] or Fraction(r["shares"]) != b["sold"]:
                continue
            note = ("RSU " + b["award"]) if b["kind"] == "RSU" else ("ESPP" if b["kind"] == "ESPP" else b["award"])
            if note not in r["memo"]:
                continue
            if Fraction(r["amount/share"]) != b["sale_price"] or Fraction(r["commission"]) != b["fee"]:
                continue
            cands = [i for i in avail_ if trades[i]["sym"] == b["sym"] and trades[i].get("act", "Sell") == "Sell"
                     and b["date"] <= trades[i]["td"] <= b["date"] + datetime.timedelta(days=5)]
            for combo in subsets_with_sum(cands, {i: trades[i]["qty"] for i in cands}, b["sold"]):
                if not any(trades[i]["td"].isoformat() == r["trade date"] and trades[i]["sd"].isoformat() == r["settlement date"] for i in combo):
                    continue
                if rec(bi + 1, [i for i in avail_ if i not in combo], rows_left[:ri] + rows_left[ri + 1:]):
                    return True
        return False
    if not rec(0, avail, stc):
        return {"what": "sell-to-cover sales cannot be explained by disjoint sets of confirmations traded within five days after their benefit "
                        "(a confirmation lost, used twice, or attached to the wrong benefit)",
                "sell_to_cover_rows": stc, "unconsumed_confirmations": [{k: str(v) for k, v in trades[i].items()} for i in avail]}
    return None


def run(tier):
    seed = common.seed()
    common.build(bins=True)
    V = Verdict(PROP, tier)
    V.rule = ("confirmation texts generated from templates cut from the checked-in samples (RSU, ESPP with and without sell-to-cover, pre-2023 multi-trade and "
              "post-2023 single-trade confirmations), 1-4 benefits 0-90 days apart over 1-2 securities, 1-3 sell-to-cover fills each traded 0-5 days after the "
              "benefit, 0-3 extra manual sales (some inside the matching window, some with the same share count), one sell-to-cover confirmation lost in 20% of "
              "the sets, shuffled file names, each set run under 3 file orders; oracle = exhaustive subset accounting from the spec. non-trivial = >=2 benefits with "
              "overlapping candidate windows, or a manual sale with the same share count as a sell-to-cover, or an unmatchable set")
    n = {"quick": 500, "thorough": 20000}[tier]
    wd = common.workdir("c19files")
    try:
        cases = []
        meta = {}
        for i in range(n):
            rng = common.rng_for(seed, PROP, i)
            sc = gen_scenario(rng)
            variants = []
            for v in range(3):
                fr = common.rng_for(seed, PROP, i, "files", v)
                files = render_files(fr, sc)
                cid = "e%06d-%d" % (i, v)
                cases.append({"id": cid, "dir": os.path.join(wd, cid), "files": [[nm, tx] for nm, tx in files]})
                variants.append(cid)
            meta[i] = (sc, variants)
        res = common.run_harness("etrade", cases, tag="c19")
        accept = []
        for i, (sc, variants) in meta.items():
            V.count()
            r0 = res.get(variants[0], {})
            if "harness_error" in r0 or "crash" in r0:
                V.unjudged += 1
                continue
            V.bump("sets_judged")
            try:
                verdicts = [judge(sc, res.get(cid, {})) for cid in variants]      # every file order is judged on its own first
            except SearchTooLarge:
                V.unjudged += 1
                V.bump("sets_unjudged_search_too_large")
                continue
            f = next((dict(v, file_order=cid) if k else v for k, (cid, v) in enumerate(zip(variants, verdicts)) if v), None)
            sig_extra = {}
            if f and f["what"] == "a consistent set of confirmations is rejected":
                # input/observation features for a known-finding signature (greedy matching in file order): another order of
                # the same files is accounted for validly, the message is the matcher's own, and at least two benefits of
                # one security with sold shares have overlapping five-day windows
                bs_ = [b for b in sc["benefits"] if b["sold"]]
                ov_ = any(abs((a["date"] - b["date"]).days) <= 5 and a["sym"] == b["sym"] for a, b in itertools.combinations(bs_, 2))
                other_ok = any(v is None and res.get(cid, {}).get("ok") for cid, v in zip(variants, verdicts))

                def n_combos(b):
                    cands = [t for t in sc["trades"] if t["sym"] == b["sym"] and t.get("act", "Sell") == "Sell"
                             and b["date"] <= t["td"] <= b["date"] + datetime.timedelta(days=5)]
                    try:
                        return len(subsets_with_sum(list(range(len(cands))), {i_: t_["qty"] for i_, t_ in enumerate(cands)}, b["sold"]))
                    except SearchTooLarge:
                        return 2
                # ... or some benefit has more than one combination of fills adding up to its sold shares (the matcher
                # then picks by closeness to a price printed in cents and never revisits the choice)
                other_ok = other_ok or any(n_combos(b) >= 2 for b in bs_)
                own_msg = ("Found no trades matching the sell-to-cover" in str(f.get("err")) or "Unable to decide between multiple trade combinations" in str(f.get("err")))
                sig_extra = {"greedy_shape": bool(ov_ and other_ok and own_msg)}
            if not f:
                for cid in variants[1:]:
                    ro = res.get(cid, {})
                    if ro.get("ok") != r0.get("ok") or (r0.get("ok") and sorted(ro.get("out", "").split("\n")) != sorted(r0.get("out", "").split("\n"))):
                        f = {"what": "output depends on the order / names of the files", "first": r0.get("out", r0.get("err"))[:300], "other": ro.get("out", ro.get("err"))[:300]}
                        # each order's result is, taken alone, a valid accounting (or a justified failure): the set admits several
                        sig_extra = {"each_order_valid_alone": True}
                        break
            bs = [b for b in sc["benefits"] if b["sold"]]
            overlap = any(abs((a["date"] - b["date"]).days) <= 5 and a["sym"] == b["sym"] for a, b in itertools.combinations(bs, 2))
            same_count = any(t["for"] is None and any(t["qty"] == b["sold"] for b in bs) for t in sc["trades"])
            if overlap or same_count or not sc["consistent_by_construction"]:
                V.nontriv(i)
            if not sc["consistent_by_construction"]:
                V.bump("sets_with_a_lost_confirmation")
            if f:
                V.violation("%s [set #%d]" % (json.dumps(f, default=str)[:700], i), {"kind": "set", "prop": PROP, "index": i, "files": cases[i * 3]["files"]},
                            dict({"what": f["what"]}, **sig_extra))
            else:
                V.sample({"files": [nm for nm, _ in cases[i * 3]["files"]], "out": r0.get("out", r0.get("err"))[:500]}, cap=2)
                if r0.get("ok") and r0["out"].strip():
                    ys = sorted({b["date"].year for b in sc["benefits"]} | {t["sd"].year for t in sc["trades"]} | {t["td"].year for t in sc["trades"]})
                    rates = {str(y): [[(datetime.date(y, 1, 1) + datetime.timedelta(days=k)).isoformat(), "1.3"] for k in range(0, 366)
                                      if (datetime.date(y, 1, 1) + datetime.timedelta(days=k)).year == y] for y in range(ys[0] - 1, ys[-1] + 1)}
                    accept.append({"id": "a%06d" % i, "files": [["extracted.csv", r0["out"]]], "init": [], "full": True, "today": "2035-01-01",
                                   "remote": {"kind": "mock", "years": rates}, "want": ["model"]})
        ares = common.run_harness("app", accept, tag="c19a")
        for c in accept:
            r = ares.get(c["id"], {})
            V.bump("outputs_fed_to_acb")
            if "panic" in r or not r.get("ok"):
                V.violation("acb does not accept the extractor's output: %s" % json.dumps(r.get("err") or r.get("panic"))[:300],
                            {"kind": "acb_accept", "prop": PROP, "csv": c["files"][0][1]}, {"what": "output not accepted by acb"})
        # the real binary on a sample
        for c in cases[:{"quick": 8, "thorough": 60}[tier] * 3:3]:
            r0 = res.get(c["id"], {})
            paths = sorted(os.path.join(c["dir"], f[0]) for f in c["files"])
            if not all(os.path.exists(p) for p in paths):
                continue
            r = common.run_cli("etrade-plan-pdf-tx-extract", paths, home=wd)
            V.bump("binary_runs")
            if r["rc"] not in (0, 1) or b"panicked at" in r["err"]:
                V.violation("etrade-plan-pdf-tx-extract crashed rc=%s %s" % (r["rc"], r["err"][-200:]), {"kind": "cli", "prop": PROP, "files": c["files"]}, {"what": "binary crashed"})
            elif (r["rc"] == 0) != bool(r0.get("ok")) or (r["rc"] == 0 and r["out"].decode("utf-8", "replace") != r0.get("out")):
                V.violation("etrade-plan-pdf-tx-extract output differs from the library path", {"kind": "cli", "prop": PROP, "files": c["files"]}, {"what": "binary differs from library"})
    finally:
        common.cleanup(wd)
    return V.finish(floor_eval=100, floor_nontrivial=20, floors={"sets_judged": 200, "outputs_fed_to_acb": 100, "binary_runs": 4, "sets_with_a_lost_confirmation": 10})


def replay(rec):
    c = rec["case"]
    common.build()
    if c["kind"] != "set":
        print(json.dumps(c)[:1500])
        return 0
    seed = common.seed()
    i = c["index"]
    sc = gen_scenario(common.rng_for(seed, PROP, i))
    wd = common.workdir("c19r")
    try:
        r = common.run_harness("etrade", [{"id": "r", "dir": os.path.join(wd, "r"), "files": c["files"]}], tag="c19rr", nproc=1)["r"]
        print(r.get("out"), r.get("err"))
        f = judge(sc, r)
        if f:
            print("replay finding:", json.dumps(f, default=str)[:800])
            print("VIOLATION property=%s replay=%s" % (PROP, sys.argv[2]))
            return 1
        print("replay: no finding reproduced (scenario regenerated from VERIF_SEED=%s)" % seed)
        return 0
    finally:
        common.cleanup(wd)


if __name__ == "__main__":
    sys.exit(common.main_dispatch(PROP, run, replay))
