"""Exact reference model (fractions.Fraction) of the ledger, the superficial-loss rule and
history acceptance, written from the property statements C01-C04, plus the comparison of a
tool result (render model, full precision) against it.

analyze(history, result) walks the rows the tool reported for each security, derives what the
statement says each row must show from the INPUT rows and the model's own carried state, and
returns findings tagged with the property they belong to.
"""
import datetime
import re
from fractions import Fraction

EPS = Fraction(1, 10 ** 9)
SFL_TOL = Fraction(1, 1000)


def af_norm(s):
    s = s or ""
    reg = re.search(r"\([rR]\)", s) is not None
    name = re.sub(r"\([rR]\)", " ", s)
    name = re.sub(r"  +", " ", name).strip()
    if not name:
        name = "Default"
    return name.lower() + (" (R)" if reg else "")


def is_reg(afid):
    return afid.endswith(" (R)")


def D(s):
    return datetime.date.fromisoformat(s)


def money(cell):
    """'$1.23' / '-$1.23' / '+$1.23' -> Fraction; '-' -> None."""
    c = cell.strip()
    if c == "-" or c == "":
        return None
    m = re.match(r"^([+-]?)\$(-?[0-9.]+)$", c)
    if not m:
        raise ValueError("bad money cell %r" % cell)
    v = Fraction(m.group(2))
    return -v if m.group(1) == "-" else v


def parse_gain_cell(cell):
    """-> (gain, sfl or None) where sfl = dict(amount, forced, num, den, over)."""
    c = cell.strip()
    if c == "-":
        return None, None
    parts = c.split(" *\n")
    gain = money(parts[0])
    if len(parts) == 1:
        return gain, None
    m = re.match(r"^\(SfL (-?\$[0-9.]+)(!?); ([0-9.]+)/([0-9.]+)(\[1\])?\)$", parts[1].strip())
    if not m:
        raise ValueError("bad SfL cell %r" % cell)
    return gain, {"amount": money(m.group(1)), "forced": m.group(2) == "!",
                  "num": Fraction(m.group(3)), "den": Fraction(m.group(4)),
                  "over": m.group(5) is not None}


def parse_balance_cell(cell):
    """'x' | 'x / y' with optional ' (xF)' -> (own, all, factor)"""
    c = cell.strip()
    factor = None
    m = re.match(r"^(.*) \(x([0-9.]+)\)$", c)
    if m:
        c = m.group(1)
        factor = Fraction(m.group(2))
    if " / " in c:
        a, b = c.split(" / ")
        return Fraction(a), Fraction(b), factor
    if c == "":
        return None, None, factor
    return Fraction(c), Fraction(c), factor


def first_money(cell):
    return money(cell.split("\n")[0])


class Event:
    __slots__ = ("idx", "sec", "td", "sd", "action", "af", "glob", "shares", "aps", "comm",
                 "fx", "cfx", "sfl", "sfl_forced", "factor", "int_only", "row", "threshold_tie")

    def __init__(self, idx, r):
        self.idx = idx
        self.row = r
        self.threshold_tie = False
        self.sec = r["sec"]
        self.td = D(r["td"])
        self.sd = D(r["sd"])
        self.action = r["action"]
        afs = (r.get("af") or "").strip()
        self.glob = (self.action == "Split" and afs == "")
        self.af = af_norm(afs)
        g = lambda k: Fraction(r[k]) if r.get(k) not in (None, "") else None
        self.shares = g("shares")
        self.aps = g("aps")
        self.comm = g("comm") or Fraction(0)
        cur = (r.get("cur") or "CAD").upper()
        self.fx = g("fx") if g("fx") is not None else Fraction(1)
        ccur = r.get("ccur")
        if ccur:
            self.cfx = g("cfx") if g("cfx") is not None else Fraction(1)
        else:
            self.cfx = self.fx
        s = r.get("sfl")
        self.sfl = None
        self.sfl_forced = False
        if s:
            self.sfl_forced = s.endswith("!")
            self.sfl = Fraction(s.rstrip("!"))
        self.factor = None
        self.int_only = False
        if self.action == "Split":
            a, b = r["split"].lower().strip().split("-for-")
            self.factor = Fraction(a) / Fraction(b)
            self.int_only = (Fraction(b) > Fraction(a)) and "." not in a and "." not in b


def events_by_security(rows):
    evs = [Event(i, r) for i, r in enumerate(rows)]
    evs.sort(key=lambda e: (e.sd, e.idx))
    by = {}
    for e in evs:
        by.setdefault(e.sec, []).append(e)
    return by


class Ledger:
    def __init__(self, init=None):
        self.sh = {}
        self.acb = {}
        if init is not None:
            n, c = init
            self.sh["default"] = Fraction(n)
            self.acb["default"] = Fraction(c)

    def shares(self, af):
        return self.sh.get(af, Fraction(0))

    def cost(self, af):
        if is_reg(af):
            return None
        return self.acb.get(af, Fraction(0))

    def total(self):
        return sum(self.sh.values(), Fraction(0))

    def known(self):
        return set(self.sh) | set(self.acb)


def sfl_expect(events, i, led):
    """Superficial-loss expectation for the sale events[i], from input rows and ledger state
    just before the sale. Returns dict(superficial, n, acquired, held_end, buyers, eop, T)."""
    e = events[i]
    lo = e.sd - datetime.timedelta(days=30)
    hi = e.sd + datetime.timedelta(days=30)
    sold = e.shares
    acquired = Fraction(0)
    after_all = led.total() - sold
    buyers = set()
    eop = {e.af: led.shares(e.af) - sold}
    adj = {}

    def a(af):
        return adj.get(af, Fraction(1))

    for j in range(i + 1, len(events)):
        x = events[j]
        if x.sd > hi:
            break
        if x.action == "Buy":
            q = x.shares * a(x.af)
            acquired += q
            after_all += q
            eop[x.af] = eop.get(x.af, led.shares(x.af)) + q
            buyers.add(x.af)
        elif x.action == "Sell":
            q = x.shares * a(x.af)
            after_all -= q
            eop[x.af] = eop.get(x.af, led.shares(x.af)) - q
        elif x.action == "Split":
            if x.glob:
                # applies to everyone: every affiliate's later counts convert back by 1/f
                for af in set(list(adj.keys()) + list(led.known()) + [y.af for y in events if not y.glob]):
                    adj[af] = a(af) / x.factor
            else:
                adj[x.af] = a(x.af) / x.factor
    adj = {}
    for j in range(i - 1, -1, -1):
        x = events[j]
        if x.sd < lo:
            break
        if x.action == "Buy":
            acquired += x.shares * a(x.af)
            buyers.add(x.af)
            if x.af not in eop:
                eop[x.af] = led.shares(x.af)
        elif x.action == "Split":
            if x.glob:
                for af in set(list(adj.keys()) + list(led.known()) + [y.af for y in events if not y.glob]):
                    adj[af] = a(af) * x.factor
            else:
                adj[x.af] = a(x.af) * x.factor
    offs = set()
    split_in_window = False
    for x in events:
        if x is e:
            continue
        dd = abs((x.sd - e.sd).days)
        if dd <= 35:
            offs.add(dd)
        if dd <= 30 and x.action == "Split":
            split_in_window = True
    superficial = acquired > 0 and after_all > 0
    n = min(sold, acquired, after_all) if superficial else Fraction(0)
    T = sum((eop.get(b, Fraction(0)) for b in buyers), Fraction(0))
    return {"superficial": superficial, "n": n, "acquired": acquired, "held_end": after_all,
            "buyers": buyers, "eop": eop, "T": T, "offsets": offs, "split_in_window": split_in_window,
            "lookahead_negative": after_all < 0 or any(v < 0 for v in eop.values())}


class Finding:
    def __init__(self, prop, sec, what, **kw):
        self.prop = prop
        self.sec = sec
        self.what = what
        self.kw = kw

    def __repr__(self):
        return "%s[%s] %s %s" % (self.prop, self.sec, self.what,
                                 {k: (str(v) if isinstance(v, Fraction) else v) for k, v in self.kw.items()})

    def to_json(self):
        return {"prop": self.prop, "sec": self.sec, "what": self.what,
                "detail": {k: (str(v) if isinstance(v, Fraction) else v) for k, v in self.kw.items()}}


def close(a, b, eps=EPS):
    if a is None or b is None:
        return a is None and b is None
    return abs(a - b) <= eps


COLS = ["Security", "Trade Date", "Settl. Date", "TX", "Amount", "Shares", "Amt/Share", "ACB",
        "Commission", "Cap. Gain", "Share Balance", "ACB +/-", "New ACB", "New ACB/Share",
        "Affiliate", "Memo"]


class SecAnalysis:
    def __init__(self, sec):
        self.sec = sec
        self.findings = []
        self.rows_judged = 0
        self.loss_sales = 0
        self.sfl_sales = 0
        self.sfl_multi_buyer = 0
        self.boundary_events = 0
        self.ref_reject = None        # (event, reason) first offending by exact model
        self.tool_error = None
        self.tool_rows = 0
        self.consumed_all = False
        self.gains = []               # (sd, gain Fraction) as reported by tool
        self.ref_gains = []           # as computed by ref
        self.final = None
        self.prefix_sums = []         # for C03: (tool_gain_sum, ref conservation rhs) at prefix ends
        self.c03_prefixes = 0
        self.c03_precond_broken = None
        self.nonterminating = False
        self.interleaved = False
        self.features = set()


def classify(events, init):
    """Exact acceptance of one security's history without looking at the tool. Returns
    (first offending event index or None, reason)."""
    led = Ledger(init)
    for i, e in enumerate(events):
        r = apply_event(events, i, led, None)
        if r is not None:
            return i, r
    return None, None


def apply_event(events, i, led, tool_sfl):
    """Applies events[i] to led exactly. Returns a rejection reason or None.
    tool_sfl: None -> use the model's own superficial-loss amount; otherwise a Fraction
    (<=0) reported by the tool on this sale row, or 0."""
    e = events[i]
    af = e.af
    if e.action == "Buy":
        led.sh[af] = led.shares(af) + e.shares
        if not is_reg(af):
            led.acb[af] = led.cost(af) + e.shares * e.aps * e.fx + e.comm * e.cfx
        return None
    if e.action == "Sell":
        held = led.shares(af)
        if e.shares > held:
            return "oversell"
        if is_reg(af):
            led.sh[af] = held - e.shares
            return None
        cost = led.cost(af)
        removed = cost * e.shares / held
        gross = e.shares * e.aps * e.fx - e.comm * e.cfx - removed
        info = {"gross": gross}
        denied = Fraction(0)
        if gross < 0:
            x = sfl_expect(events, i, led)
            info["sfl"] = x
            comp = gross * x["n"] / e.shares if x["superficial"] else Fraction(0)
            info["computed"] = comp
            if e.sfl is not None:
                dist = abs(comp - e.sfl)
                if not e.sfl_forced and abs(dist - SFL_TOL) <= TIE_EPS:
                    # the declared value sits on the 0.001 threshold itself: which side it falls on can be decided by
                    # decimal rounding noise in the tool's computed value. The judge accepts a rejection here only when
                    # the numbers the tool quotes in its message are themselves more than 0.001 apart
                    e.threshold_tie = True
                elif not e.sfl_forced and dist > SFL_TOL:
                    return "sfl_mismatch"
                denied = e.sfl
            else:
                denied = comp
        elif e.sfl is not None:
            return "sfl_no_loss"
        e_info[id(e)] = info
        if tool_sfl is not None and gross < 0:
            denied_used = tool_sfl
        else:
            denied_used = denied
        info["denied"] = denied
        info["gain"] = gross - denied_used
        info["gain_ref"] = gross - denied
        led.sh[af] = held - e.shares
        led.acb[af] = cost - removed
        if tool_sfl is None and gross < 0 and e.sfl is None and denied != 0:
            # the model's own automatic adjustments (independent classification walk)
            x = info["sfl"]
            if x["T"] > 0:
                for b in x["buyers"]:
                    if not is_reg(b) and x["eop"].get(b, 0) > 0:
                        led.acb[b] = led.cost(b) + (-denied) * x["eop"][b] / x["T"]
        return None
    if e.action == "RoC":
        if is_reg(af):
            return "roc_registered"
        red = e.aps * e.fx * led.shares(af)
        if red > led.cost(af):
            return "roc_exceeds_acb"
        led.acb[af] = led.cost(af) - red
        return None
    if e.action == "SfLA":
        if is_reg(af):
            return "sfla_registered"
        led.acb[af] = led.cost(af) + e.shares * e.aps
        return None
    if e.action == "Split":
        targets = [af]
        if e.glob:
            targets = sorted(led.known())
        for t in targets:
            new = led.shares(t) * e.factor
            if e.int_only and new.denominator != 1:
                return "reverse_split_fraction"
        for t in targets:
            led.sh[t] = led.shares(t) * e.factor
        return None
    return "unknown_action"


e_info = {}
TIE_EPS = Fraction(1, 10 ** 9)


def analyze_security(sec, events, init, table):
    """table: render-model table for this security (full precision)."""
    A = SecAnalysis(sec)
    F = A.findings
    hdr = table["header"]
    col = {h: i for i, h in enumerate(hdr)}
    rows = table["rows"]
    A.tool_rows = len(rows)
    A.tool_error = table["errors"][0] if table["errors"] else None

    # exact classification (independent walk)
    ri, reason = classify(events, init)
    if ri is not None:
        A.ref_reject = (events[ri], reason, ri)
    if any(getattr(x, "threshold_tie", False) for x in events):
        A.features.add("sfl_threshold_tie")

    led = Ledger(init)
    opening_cost = Fraction(init[1]) if init else Fraction(0)
    # C03 accumulators (exact, from input rows)
    proceeds = Fraction(0)
    purchases = Fraction(0)
    roc_total = Fraction(0)
    tool_gain_sum = Fraction(0)
    # C03 precondition: every affiliate non-registered and no manual SfL entries, anywhere in
    # this security's history (a later registered buyer already matters to an earlier sale)
    c03_ok = not any(is_reg(x.af) or x.sfl is not None or x.action == "SfLA" for x in events)
    afs_seen = set()
    ei = 0
    ti = 0
    last_sale = None
    e_info.clear()

    def cell(r, name):
        return r[col[name]]

    while ti < len(rows):
        r = rows[ti]
        action = cell(r, "TX")
        memo = cell(r, "Memo")
        raf = af_norm(cell(r, "Affiliate"))
        try:
            own, allb, factor = parse_balance_cell(cell(r, "Share Balance"))
            new_acb = money(cell(r, "New ACB"))
            acb_delta = money(cell(r, "ACB +/-"))
            gain, sflc = parse_gain_cell(cell(r, "Cap. Gain"))
            per_share = money(cell(r, "New ACB/Share"))
        except ValueError as ex:
            F.append(Finding("C01", sec, "unparsable cell", row=ti, err=str(ex)))
            return A
        is_auto = action == "SfLA" and memo.replace("\n", " ").startswith("Automatic SfL ACB adjustment")
        if is_auto:
            # cost-base adjustment generated by the tool for the preceding sale
            amt = first_money(cell(r, "Amount"))
            if last_sale is None:
                F.append(Finding("C03", sec, "automatic SfLA without a preceding superficial sale", row=ti))
            else:
                last_sale["sflas"].append((raf, amt, ti))
            if is_reg(raf):
                F.append(Finding("C03", sec, "automatic SfLA to a registered affiliate", row=ti, af=raf))
                F.append(Finding("C04", sec, "registered affiliate shows a cost base", row=ti, af=raf))
            else:
                led.acb[raf] = led.cost(raf) + (amt or 0)
            exp_own, exp_all, exp_acb = led.shares(raf), led.total(), led.cost(raf)
            check_row(A, ti, raf, None, own, allb, new_acb, acb_delta, per_share, gain,
                      exp_own, exp_all, exp_acb, amt if not is_reg(raf) else None, None)
            ti += 1
            continue

        # a non-generated row: must correspond to the next input event
        close_sale(A, last_sale, led)
        last_sale = None
        if ei >= len(events):
            F.append(Finding("C01", sec, "tool reports a row with no corresponding input row", row=ti))
            return A
        e = events[ei]
        if A.ref_reject is not None and ei == A.ref_reject[2]:
            if e.action == "Split" and e.glob:
                # A split for all affiliates is reported as one row per affiliate; rows of
                # affiliates whose own split is fine may precede the failing affiliate's.
                while ti < len(rows):
                    r2 = rows[ti]
                    if cell(r2, "TX") != "Split" or cell(r2, "Settl. Date") != str(e.sd):
                        F.append(Finding("C04", sec, "rows shown continue past the offending transaction",
                                         row=ti, reason=A.ref_reject[1], date=str(e.td)))
                        return A
                    a2 = af_norm(cell(r2, "Affiliate"))
                    if (led.shares(a2) * e.factor).denominator != 1:
                        F.append(Finding("C04", sec, "rows shown include the offending transaction",
                                         row=ti, reason=A.ref_reject[1], date=str(e.td), af=a2))
                        return A
                    ti += 1
                A.events_consumed = ei
                return A
            F.append(Finding("C04", sec, "rows shown include the offending transaction",
                             row=ti, reason=A.ref_reject[1], date=str(e.td)))
            return A
        if e.action == "Split" and e.glob:
            # the tool shows one Split row per affiliate; order is not prescribed here
            seen = set()
            pre_total = led.total()
            group = []
            while ti < len(rows):
                r2 = rows[ti]
                if cell(r2, "TX") != "Split" or cell(r2, "Settl. Date") != str(e.sd) or cell(r2, "Trade Date") != str(e.td):
                    break
                a2 = af_norm(cell(r2, "Affiliate"))
                if a2 in seen:
                    break
                seen.add(a2)
                group.append((ti, a2))
                ti += 1
            if not group:
                F.append(Finding("C01", sec, "row does not correspond to input (expected split)", row=ti))
                return A
            for (tj, a2) in group:
                r2 = rows[tj]
                own2, all2, fac2 = parse_balance_cell(cell(r2, "Share Balance"))
                pre_own = led.shares(a2)
                led.sh[a2] = pre_own * e.factor
                check_row(A, tj, a2, e, own2, all2, money(cell(r2, "New ACB")), money(cell(r2, "ACB +/-")),
                          money(cell(r2, "New ACB/Share")), parse_gain_cell(cell(r2, "Cap. Gain"))[0],
                          led.shares(a2), led.total(), led.cost(a2), Fraction(0) if not is_reg(a2) else None, None)
            missing = [a2 for a2 in led.known() if a2 not in seen and led.shares(a2) != 0]
            if missing and A.tool_error is not None and ti >= len(rows):
                # the tool stopped inside this group (its own rejection at one affiliate's copy): the rows shown are
                # a prefix of a history it did not accept; whether that rejection is justified is C04's question
                A.features.add("tool_rejected_inside_split_group")
                return A
            if missing:
                F.append(Finding("C01", sec, "split for all affiliates not applied to a holder",
                                 missing=sorted(missing), date=str(e.td)))
                return A
            ei += 1
            continue

        # ordinary event
        if (action != e.action or raf != e.af or cell(r, "Settl. Date") != str(e.sd)
                or cell(r, "Trade Date") != str(e.td)):
            F.append(Finding("C01", sec, "row does not correspond to the next input row in (settlement date, file position) order",
                             row=ti, tool=[action, raf, cell(r, "Trade Date"), cell(r, "Settl. Date")],
                             expected=[e.action, e.af, str(e.td), str(e.sd)]))
            return A
        afs_seen.add(e.af)
        if len(afs_seen) > 1:
            A.interleaved = True
        pre_cost = led.cost(e.af)
        pre_sh = led.shares(e.af)
        tool_sfl = None
        if e.action == "Sell" and not is_reg(e.af):
            tool_sfl = sflc["amount"] if sflc else Fraction(0)
        rej = apply_event(events, ei, led, tool_sfl)
        if rej is not None:
            # classify() found it first; covered above. Defensive:
            F.append(Finding("C04", sec, "rows shown include the offending transaction", row=ti, reason=rej))
            return A
        exp_gain = None
        exp_delta = None if is_reg(e.af) else led.cost(e.af) - pre_cost
        if e.action == "Sell" and not is_reg(e.af):
            info = e_info[id(e)]
            exp_gain = info["gain"]
            if pre_sh > 0 and pre_cost is not None:
                q = pre_cost / pre_sh
                if q.denominator != 1 and any(p not in (2, 5) for p in prime_factors_small(q.denominator)):
                    A.nonterminating = True
            judge_sale(A, ti, e, info, sflc)
            last_sale = {"e": e, "info": info, "sflc": sflc, "sflas": [], "row": ti}
            proceeds += e.shares * e.aps * e.fx - e.comm * e.cfx
            if sflc and sflc["over"]:
                c03_ok = False
            if e.sfl is not None:
                c03_ok = False
        elif e.action == "Buy":
            purchases += e.shares * e.aps * e.fx + e.comm * e.cfx
        elif e.action == "RoC":
            roc_total += e.aps * e.fx * pre_sh
        elif e.action == "SfLA":
            c03_ok = False
        if is_reg(e.af):
            c03_ok = False
        check_row(A, ti, e.af, e, own, allb, new_acb, acb_delta, per_share, gain,
                  led.shares(e.af), led.total(), led.cost(e.af), exp_delta, exp_gain)
        if e.action == "Sell" and not is_reg(e.af) and (sflc is not None or e.sfl is not None) and not close(gain, exp_gain):
            # C02: "the reported gain is the loss minus the denied amount" (denied amount as reported on the row)
            F.append(Finding("C02", sec, "reported gain is not the loss minus the denied amount", row=ti, tool=gain, expected=exp_gain,
                             denied=(sflc["amount"] if sflc else 0)))
        if gain is not None:
            A.gains.append((e.sd, gain))
            tool_gain_sum += gain
        ti += 1
        ei += 1
        # C03 identity is evaluated after a sale's automatic adjustments: peek
        nxt_auto = (ti < len(rows) and rows[ti][col["TX"]] == "SfLA"
                    and rows[ti][col["Memo"]].replace("\n", " ").startswith("Automatic SfL ACB adjustment"))
        if not nxt_auto:
            c03_prefix(A, ti, c03_ok, tool_gain_sum, proceeds, purchases, opening_cost, roc_total, led)
        else:
            A._pending_c03 = True
        continue
    close_sale(A, last_sale, led)
    if getattr(A, "_pending_c03", False):
        c03_prefix(A, ti, c03_ok, tool_gain_sum, proceeds, purchases, opening_cost, roc_total, led)
    A.consumed_all = (ei == len(events))
    A.events_consumed = ei
    A.final = {af: (led.shares(af), led.cost(af)) for af in sorted(led.known())}
    return A


def prime_factors_small(n):
    out = set()
    for p in (2, 3, 5, 7, 11, 13):
        while n % p == 0:
            out.add(p)
            n //= p
    if n > 1:
        out.add(n)
    return out


def c03_prefix(A, ti, ok, tool_gain_sum, proceeds, purchases, opening_cost, roc_total, led):
    A._pending_c03 = False
    if not ok:
        return
    held_cost = sum((v for v in led.acb.values()), Fraction(0))
    rhs = proceeds - purchases - opening_cost + roc_total + held_cost
    A.c03_prefixes += 1
    tol = EPS * max(1, ti)
    if abs(tool_gain_sum - rhs) > tol:
        A.findings.append(Finding("C03", A.sec, "conservation identity broken at prefix",
                                  prefix_rows=ti, gains=tool_gain_sum, cashflow_side=rhs,
                                  diff=tool_gain_sum - rhs))


def check_row(A, ti, af, e, own, allb, new_acb, acb_delta, per_share, gain,
              exp_own, exp_all, exp_acb, exp_delta, exp_gain):
    F = A.findings
    sec = A.sec
    A.rows_judged += 1
    # C04(a) invariants
    if own is not None and own < 0 or allb is not None and allb < 0:
        F.append(Finding("C04", sec, "negative share balance", row=ti))
    if new_acb is not None and new_acb < 0:
        F.append(Finding("C04", sec, "negative cost base", row=ti))
    if allb is not None and not close(allb, exp_all):
        F.append(Finding("C04", sec, "all-affiliate balance is not the sum of affiliates' balances",
                         row=ti, tool=allb, expected=exp_all))
    if is_reg(af):
        if new_acb is not None or per_share is not None or acb_delta is not None:
            F.append(Finding("C04", sec, "registered affiliate shows a cost base", row=ti))
        if gain is not None:
            F.append(Finding("C04", sec, "registered affiliate shows a capital gain", row=ti))
    # C01 ledger
    if own is not None and not close(own, exp_own):
        F.append(Finding("C01", sec, "share balance", row=ti, tool=own, expected=exp_own))
    if own is None and (e is None or e.action in ("Buy", "Sell", "Split")) and e is not None:
        F.append(Finding("C01", sec, "share balance missing", row=ti))
    if not close(new_acb, exp_acb):
        F.append(Finding("C01", sec, "total cost base", row=ti, tool=new_acb, expected=exp_acb))
    if exp_delta is not None or acb_delta is not None:
        if not close(acb_delta, exp_delta):
            F.append(Finding("C01", sec, "cost base change", row=ti, tool=acb_delta, expected=exp_delta))
    if e is not None and e.action == "Sell":
        if not close(gain, exp_gain):
            F.append(Finding("C01", sec, "capital gain", row=ti, tool=gain, expected=exp_gain))
    elif gain is not None:
        F.append(Finding("C01", sec, "capital gain on a non-sale row", row=ti, tool=gain))
    if exp_acb is not None and exp_own and exp_own > 0:
        # per-share figure: relative tolerance (a dust-sized share balance amplifies noise)
        if not close(per_share, exp_acb / exp_own, EPS * max(1, exp_acb / exp_own)):
            F.append(Finding("C01", sec, "cost base per share", row=ti, tool=per_share, expected=exp_acb / exp_own))


def judge_sale(A, ti, e, info, sflc):
    """C02: superficial-loss determination and amount on a sale row."""
    F = A.findings
    sec = A.sec
    gross = info["gross"]
    if gross >= 0:
        if sflc is not None:
            F.append(Finding("C02", sec, "superficial loss reported on a sale without loss", row=ti))
        return
    if -gross < EPS:
        A.features.add("tiny_loss_unjudged")
        return
    A.loss_sales += 1
    x = info["sfl"]
    if x["offsets"] & {29, 30, 31}:
        A.features.add("boundary_offset")
    if x["split_in_window"]:
        A.features.add("split_in_window")
    if any(is_reg(b) for b in x["buyers"]):
        A.features.add("registered_buyer")
    if x["superficial"] and len([b for b in x["buyers"] if not is_reg(b)]) >= 2:
        A.features.add("multi_buyer_sfl")
    if e.sfl is not None:
        # user-supplied value replaces the computed one
        exp_amt = e.sfl
        if exp_amt == 0:
            if sflc is not None:
                F.append(Finding("C02", sec, "user-supplied zero superficial loss but one is reported", row=ti))
            return
        if sflc is None:
            F.append(Finding("C02", sec, "user-supplied superficial loss not reported", row=ti, expected=exp_amt))
            return
        if not close(sflc["amount"], exp_amt):
            F.append(Finding("C02", sec, "reported superficial loss differs from the user-supplied one",
                             row=ti, tool=sflc["amount"], expected=exp_amt))
        if sflc["forced"] != e.sfl_forced:
            F.append(Finding("C02", sec, "force marker mismatch", row=ti))
        A.features.add("user_sfl")
        return
    if x["superficial"]:
        A.sfl_sales += 1
        exp_amt = info["computed"]
        if sflc is None:
            # tolerate: denied amount below rounding noise
            if abs(exp_amt) > EPS:
                F.append(Finding("C02", sec, "superficial loss not applied", row=ti, expected=exp_amt,
                                 acquired=x["acquired"], held_end=x["held_end"], sold=e.shares))
            return
        if not close(sflc["amount"], exp_amt):
            F.append(Finding("C02", sec, "superficial loss amount", row=ti, tool=sflc["amount"], expected=exp_amt,
                             n=x["n"], sold=e.shares, acquired=x["acquired"], held_end=x["held_end"]))
        if not close(sflc["den"], e.shares) or not close(sflc["num"], x["n"]):
            F.append(Finding("C02", sec, "superficial loss ratio", row=ti,
                             tool="%s/%s" % (sflc["num"], sflc["den"]), expected="%s/%s" % (x["n"], e.shares)))
        # The [1] flag is not part of C02's statement (C03 reads it from the report as a
        # precondition); only record disagreements that are not exact ties.
        exp_over = x["T"] < x["n"]
        if sflc["over"] != exp_over and abs(x["T"] - x["n"]) > EPS:
            A.features.add("flag_disagreement")
        if len([b for b in x["buyers"]]) > 1:
            A.sfl_multi_buyer += 1
    else:
        if sflc is not None:
            F.append(Finding("C02", sec, "loss treated as superficial but the rule does not apply",
                             row=ti, tool=sflc["amount"], acquired=x["acquired"], held_end=x["held_end"]))


A_events_cache = {}


def close_sale(A, ls, led):
    """C03 per-sale accounting of generated adjustments (called when the next input row starts)."""
    if ls is None:
        return
    F = A.findings
    sec = A.sec
    e, info, sflc, sflas = ls["e"], ls["info"], ls["sflc"], ls["sflas"]
    if e.sfl is not None:
        if sflas:
            F.append(Finding("C02", sec, "automatic adjustments generated despite a user-supplied superficial loss", row=ls["row"]))
        return
    denied = -(sflc["amount"]) if sflc else Fraction(0)
    total = sum((a or 0 for _, a, _ in sflas), Fraction(0))
    if any((a is None or a < 0) for _, a, _ in sflas):
        F.append(Finding("C03", sec, "negative or missing adjustment amount", row=ls["row"]))
    if total > denied + EPS:
        F.append(Finding("C03", sec, "adjustments exceed the denied amount", row=ls["row"], total=total, denied=denied))
    if not sflc:
        return
    x = info.get("sfl")
    if x is None:
        return
    for af, amt, tj in sflas:
        if af not in x["buyers"]:
            F.append(Finding("C03", sec, "adjustment given to an affiliate that did not acquire in the window", row=tj, af=af))
    if not sflc["over"]:
        # in full, once, proportional to end-of-window holdings of the buying affiliates
        elig = {b: x["eop"].get(b, Fraction(0)) for b in x["buyers"]}
        T = sum(elig.values(), Fraction(0))
        got = {}
        for af, amt, tj in sflas:
            got[af] = got.get(af, Fraction(0)) + (amt or 0)
        reg_share = sum((v for b, v in elig.items() if is_reg(b)), Fraction(0))
        if reg_share == 0:
            if not close(total, denied):
                F.append(Finding("C03", sec, "denied loss not moved into cost base in full", row=ls["row"], total=total, denied=denied))
        if T > 0:
            for b, v in elig.items():
                if is_reg(b):
                    continue
                want = denied * v / T
                if not close(got.get(b, Fraction(0)), want):
                    F.append(Finding("C03", sec, "adjustment not proportional to end-of-window holdings",
                                     row=ls["row"], af=b, tool=got.get(b, Fraction(0)), expected=want))


def analyze(history, result):
    """history: {'rows': [...], 'init': {sec: (n, c)}}; result: harness app result (full precision).
    Returns {sec: SecAnalysis}; securities with opening positions but no rows are ignored."""
    by = events_by_security(history["rows"])
    out = {}
    tables = result.get("tables", {})
    for sec, evs in by.items():
        t = tables.get(sec)
        if t is None:
            A = SecAnalysis(sec)
            A.findings.append(Finding("C04", sec, "security missing from the report"))
            out[sec] = A
            continue
        out[sec] = analyze_security(sec, evs, history.get("init", {}).get(sec), t)
    for sec in tables:
        if sec not in by:
            A = SecAnalysis(sec)
            A.findings.append(Finding("C08", sec, "table for a security that has no input rows"))
            out[sec] = A
    return out
