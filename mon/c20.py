"""C20: statement FMV extraction returns every holding once; page hints never skip a page."""
import itertools
import json
import os
import sys
from fractions import Fraction

sys.path.insert(0, os.path.dirname(os.path.abspath(__file__)))
import common
from common import Verdict

PROP = "C20"
MONTHS = ["January", "February", "March", "April", "May", "June", "July", "August", "September", "October", "November", "December"]

DESC_WORDS = ["VANGUARD", "ISHARES", "CORE", "S&P", "500", "INDEX", "ETF", "GIC", "HOME", "TRUST", "BANK", "OF", "NOVA", "SCOTIA", "1Y", "2Y", "5Y", "CPD", "DUE",
              "INT", "CDN", "UNITS", "CL", "A", "CAD-HEDGED", "FTSE", "ALL-WORLD", "EX", "U.S.", "HORIZONS", "US", "DLR", "BMO", "3.5", "60/40", "2030", "7",
              # words that also occur in the table's own header and footer lines
              "ALLOCATION", "ASSET", "BALANCED", "PORTFOLIO", "MARKET", "VALUE", "TOTAL", "SECURITIES", "COMBINED", "TACTICAL", "FUND"]


def comma_num(rng, lo, hi, dp=1):
    v = rng.randint(lo * 10 ** dp, hi * 10 ** dp)
    ip, fp = divmod(v, 10 ** dp)
    s = "{:,}".format(ip)
    return s + "." + str(fp).rjust(dp, "0")


def gen_desc_lines(rng):
    n_lines = rng.choice([1, 1, 2, 2, 3, 4])
    lines = []
    for li in range(n_lines):
        k = rng.randint(1, 6)
        words = [rng.choice(DESC_WORDS) for _ in range(k)]
        style = rng.random()
        if style < 0.25:
            words.append("%02d/%02d/%d" % (rng.randint(1, 12), rng.randint(1, 28), rng.randint(2023, 2032)))
        if style < 0.4:
            words.append("%d.%02d%%" % (rng.randint(0, 9), rng.randint(0, 99)))
        if li == n_lines - 1 and rng.random() < 0.7:
            words.append("(%s)" % "".join(rng.choice("ABCDEFGHXYZ0123456789.") for _ in range(rng.randint(2, 8))))
        # keep the first word a non-number so that no line is mistaken for a figures line
        if words[0][0].isdigit():
            words.insert(0, "FUND")
        sep = "  " if rng.random() < 0.1 else " "
        lines.append(sep.join(words))
    return lines


def gen_statement(rng):
    n = rng.choice([0, 1, 1, 2, 3, 4, 5, 8, 12])
    secs = []
    if n == 1:
        allocs = ["100.0"]
    else:
        cuts = sorted(rng.randint(0, 1000) for _ in range(max(0, n - 1)))
        parts = [b - a for a, b in zip([0] + cuts, cuts + [1000])]
        if n >= 2 and rng.random() < 0.25:
            # one holding rounds to 100.0 next to 0.0 holdings
            parts = [0] * n
            parts[rng.randrange(n)] = 1000
        if n >= 3 and 1000 not in parts and rng.random() < 0.3:
            # allocations are printed rounded to one decimal: they may add up to 100.1 or 100.2 (six times 16.7)
            for _ in range(rng.choice([1, 2])):
                parts[rng.randrange(n)] += 1
        allocs = ["%d.%d" % (p // 10, p % 10) for p in parts]
    for i in range(n):
        lines = gen_desc_lines(rng)
        fmv = comma_num(rng, 0, rng.choice([9, 999, 99999, 9999999, 99999999]), rng.choice([1, 2]))
        own_line = rng.random() < 0.45
        if allocs[i] == "100.0" and rng.random() < 0.5:
            # the hard case for a holding at 100.0 %: figures on their own line under a description that itself
            # ends in two number-like tokens
            own_line = True
            last = lines[-1].split(" (")[0]
            lines[-1] = "%s %s %s" % (last, rng.choice(["2030", "7", "500", "60"]), rng.choice(["500", "3.5", "1,250.00", "12"]))
        secs.append({"lines": lines, "alloc": allocs[i], "fmv": fmv, "own_line": own_line})
    total = comma_num(rng, 0, 99999999, rng.choice([1, 2]))
    total_alloc = rng.choice(["100.0", "100.0", "100.00"])
    month = rng.randint(1, 12)
    day = rng.choice([28, 30, 29, 31]) if month != 2 else 28
    if month in (4, 6, 9, 11) and day == 31:
        day = 30
    year = rng.randint(2019, 2026)
    # page texts
    indent = " " * rng.choice([0, 4, 12])
    table = [indent + "Securities Owned", "", indent + "Combined in (CAD)¹", indent + "ALLOCATION (%)² MARKET VALUE ($)³", ""]
    for s in secs:
        ls = list(s["lines"])
        first = "■ " + ls[0]
        rest = ls[1:]
        body = [first] + rest
        if s["own_line"]:
            body.append("%s %s" % (s["alloc"], s["fmv"]))
        else:
            body[-1] = body[-1] + " %s %s" % (s["alloc"], s["fmv"])
        table += [indent + b for b in body] + [""]
    table.append(indent + "%s %s" % (total_alloc, total))
    table.append(indent + rng.choice(["", "1 Combined values are in CAD", "Page 7 of 12"]))
    month_page = "Leading text\nAccount #:  %d Current month:  %s %d, %d trailing\nmore" % (rng.randint(1000, 9999), MONTHS[month - 1], day, year)
    pages = []
    layout = rng.choice(["two", "one", "many"])
    if layout == "one":
        pages = [month_page + "\n" + "\n".join(table)]
    elif layout == "two":
        pages = [month_page, "Leading garbage\n" + "\n".join(table)]
    else:
        pages = [month_page] + ["Some other page %d\nHoldings 12.5 100.0\n" % k for k in range(rng.randint(1, 6))] + ["\n".join(table)] + ["trailer page"]
    spec = {"month": "%04d-%02d-%02d" % (year, month, day), "total": total,
            "secs": [{"desc": " ".join(x.strip() for x in s["lines"]), "alloc": s["alloc"], "fmv": s["fmv"]} for s in secs]}
    return pages, spec


def num(s):
    return Fraction(s.replace(",", ""))


def judge_statement(spec, res):
    if "panic" in res:
        return {"what": "extractor panicked", "panic": res["panic"]}
    if not res.get("ok"):
        return {"what": "a table in the documented layout is not extracted", "err": res.get("err")}
    if res["month"] != spec["month"]:
        return {"what": "statement month", "tool": res["month"], "expected": spec["month"]}
    if num(res["total"]) != num(spec["total"]):
        return {"what": "table total", "tool": res["total"], "expected": spec["total"]}
    if len(res["fmvs"]) != len(spec["secs"]):
        return {"what": "number of holdings (each listed security exactly once)", "tool": len(res["fmvs"]), "expected": len(spec["secs"]),
                "tool_descs": [f["desc"] for f in res["fmvs"]]}
    for i, (f, s) in enumerate(zip(res["fmvs"], spec["secs"])):
        if f["desc"] != s["desc"]:
            return {"what": "security description", "index": i, "tool": f["desc"], "expected": s["desc"]}
        if num(f["alloc"]) != num(s["alloc"]) or num(f["fmv"]) != num(s["fmv"]):
            return {"what": "allocation / market value of a holding", "index": i, "tool": [f["alloc"], f["fmv"]], "expected": [s["alloc"], s["fmv"]]}
    return None


def token(k):
    return "PAGETOKEN<%d>" % k


def judge_pages(n, hints, res, raw=False):
    if "panic" in res:
        return {"what": "page iteration panicked", "panic": res["panic"]}
    if "harness_error" in res:
        return None
    seen = [v[0] for v in res["visited"]]
    if res.get("last_error"):
        return {"what": "page iteration stopped with an error (a non-existent page was requested?)", "err": res["last_error"], "visited": seen}
    bad = [p for p in seen if p < 1 or p > n]
    if bad:
        return {"what": "a non-existent page was requested", "pages": bad}
    missing = [p for p in range(1, n + 1) if p not in seen]
    if missing:
        return {"what": "a page of the document was skipped", "missing": missing, "visited": seen, "groups": res.get("groups")}
    for pn, txt in res["visited"]:
        if token(pn) not in txt or any(token(q) in txt for q in range(1, n + 1) if q != pn):
            return {"what": "page text does not belong to the page number it is yielded under", "page": pn, "text": txt[:80]}
    return None


def judge_groups(n, hints, groups):
    flat = [p for g in groups for p in g]
    bad = [p for p in flat if p < 1 or p > n]
    if bad:
        return {"what": "page groups contain a non-existent page", "pages": bad}
    missing = [p for p in range(1, n + 1) if p not in flat]
    if missing:
        return {"what": "page groups skip a page", "missing": missing[:10], "groups": groups if n < 30 else "..."}
    if any(len(g) == 0 for g in groups):
        return {"what": "empty page group"}
    return None


def run(tier):
    seed = common.seed()
    common.build()
    V = Verdict(PROP, tier)
    V.rule = ("(tables) generated statements in the documented layout: 0-12 holdings, descriptions over 1-4 lines with digits, dates, percentages and codes, figures on "
              "the last description line or on their own line, a single 100% holding, a 100.0/0.0 mix, 1-9 pages; oracle = the generating spec. (pages) real PDFs "
              "written with lopdf, each page carrying a unique token, page counts 1-12 x hint groups (in range, 0, n+1, duplicates, empty, non-ascending, the "
              "production hints [[1,7],[6,8]]) in sequential and task-parallel mode; single-group hints of length <= 2 (quick) / <= 3 (thorough) over pages "
              "0..n+1 enumerated exhaustively; the pure chunk helper also for page counts up to 400. non-trivial = table with a multi-line description "
              "containing digits or a single 100% holding; (page count, hints) with an out-of-range, duplicate or non-ascending hint")
    # --- tables
    n_tab = {"quick": 3000, "thorough": 150000}[tier]
    cases, specs = [], {}
    for i in range(n_tab):
        rng = common.rng_for(seed, PROP, "tab", i)
        pages, spec = gen_statement(rng)
        cid = "t%06d" % i
        cases.append({"id": cid, "pages": pages})
        specs[cid] = (spec, pages)
    res = common.run_harness("fmv", cases, tag="c20t")
    for c in cases:
        V.count()
        spec, pages = specs[c["id"]]
        r = res.get(c["id"], {})
        f = judge_statement(spec, r)
        V.bump("tables_judged")
        nontriv = any(len(s["desc"].split(" ")) > 3 and any(ch.isdigit() for ch in s["desc"]) for s in spec["secs"]) or \
            (len(spec["secs"]) == 1) or any(s["alloc"] == "100.0" for s in spec["secs"])
        if nontriv:
            V.nontriv(c["id"])
        if not f:
            V.sample({"table_page": pages[-2 if len(pages) > 2 else -1][:500], "spec": spec}, cap=2)
        else:
            V.violation("%s" % json.dumps(f)[:500], {"kind": "table", "prop": PROP, "pages": pages, "spec": spec}, {"what": f["what"]})
    # --- pages: real PDFs
    hint_sets = []
    max_n = {"quick": 6, "thorough": 12}[tier]
    max_len = {"quick": 2, "thorough": 3}[tier]
    for n in range(1, max_n + 1):
        for L in range(0, max_len + 1):
            for combo in itertools.product(range(0, n + 2), repeat=L):
                hint_sets.append((n, [list(combo)] if L else []))
    for n in range(1, 13):
        hint_sets.append((n, [[1, 7], [6, 8]]))
        hint_sets.append((n, [[1, 7], [6, 8], [7, 1]]))
        hint_sets.append((n, [[], [n], []]))
        hint_sets.append((n, [[n, 1], [2, 2], [n + 1, 0, 99]]))
    rng = common.rng_for(seed, PROP, "hints")
    for i in range({"quick": 150, "thorough": 3000}[tier]):
        n = rng.randint(1, 12)
        groups = [[rng.randint(0, n + 2) for _ in range(rng.randint(0, 4))] for _ in range(rng.randint(0, 4))]
        hint_sets.append((n, groups))
    pcases = []
    pmeta = {}
    for i, (n, hints) in enumerate(hint_sets):
        for par in (False, True):
            cid = "p%06d%s" % (i, "P" if par else "S")
            pages = [[token(k), "filler line %d" % k] for k in range(1, n + 1)]
            statement = False
            if n >= 1 and i % 7 == 0:
                # a single-table statement: month on page 1, table (no holdings) on some page
                k = (i // 7) % n
                pages[0].append("Current month:  March 31, 2024")
                pages[k] += ["Securities Owned Combined in (CAD)", "ALLOCATION (%) MARKET VALUE ($)", "100.0 1,234.5"]
                statement = True
            pcases.append({"id": cid, "pages": pages, "hints": hints, "parallel": par, "statement": statement})
            pmeta[cid] = (n, hints, par, statement)
    pres = common.run_harness("pdf", pcases, tag="c20p", per_case_timeout=60)
    orders = set()
    for c in pcases:
        n, hints, par, statement = pmeta[c["id"]]
        V.count()
        r = pres.get(c["id"], {})
        if "harness_error" in r or "crash" in r or "hang" in r:
            V.unjudged += 1
            continue
        V.bump("pdf_iterations_judged")
        flat = [p for g in hints for p in g]
        weird = any(p < 1 or p > n for p in flat) or len(set(flat)) != len(flat) or any(g != sorted(g) for g in hints)
        if weird:
            V.nontriv((n, json.dumps(hints)))
        f = judge_pages(n, hints, r)
        if not f and "groups" in r:
            f = judge_groups(n, hints, r["groups"])
            orders.add(json.dumps([v[0] for v in r["visited"]]))
        if not f and statement:
            a, b = r.get("statement_hinted"), r.get("statement_in_order")
            order = [v[0] for v in r["visited"]]
            table_page = next(k + 1 for k, pg in enumerate(c["pages"]) if any("ALLOCATION" in l for l in pg))
            # only meaningful when the hinted order still reads the month page (1) before the table page,
            # as the production hints do; the statement says nothing about other orders
            if order.index(1) > order.index(table_page):
                V.bump("pdf_statements_skipped_table_before_month")
            elif a != b:
                f = {"what": "statement result under page hints differs from reading all pages in order", "hinted": a, "in_order": b}
            V.bump("pdf_statements_compared")
        if f:
            V.violation("%s [n=%d hints=%s %s]" % (json.dumps(f)[:400], n, hints, "parallel" if par else "sequential"),
                        {"kind": "pages", "prop": PROP, "case": c}, {"what": f["what"]})
    V.extra["distinct_visit_orders_observed"] = len(orders)
    # --- pure helper for large page counts
    hcases = []
    rng = common.rng_for(seed, PROP, "helper")
    for i in range({"quick": 2000, "thorough": 60000}[tier]):
        n = rng.choice([1, 2, 3, 7, 8, 9, 13, 50, 400])
        groups = [[rng.choice([0, 1, 2, n - 1, n, n + 1, rng.randint(0, n + 3)]) for _ in range(rng.randint(0, 5))] for _ in range(rng.randint(0, 5))]
        hcases.append({"id": "h%06d" % i, "num_pages_only": n, "hints": groups})
    hres = common.run_harness("pdf", hcases, tag="c20h")
    for c in hcases:
        V.count()
        r = hres.get(c["id"], {})
        if "panic" in r:
            f = {"what": "chunk helper panicked", "panic": r["panic"]}
        elif "groups" not in r:
            V.unjudged += 1
            continue
        else:
            f = judge_groups(c["num_pages_only"], c["hints"], r["groups"])
        V.bump("helper_calls_judged")
        if f:
            V.violation("%s [n=%d hints=%s]" % (json.dumps(f)[:300], c["num_pages_only"], c["hints"]),
                        {"kind": "helper", "prop": PROP, "case": c}, {"what": f["what"]})
    V.exhaustive = False
    V.extra["single_group_hints_enumerated_up_to"] = {"pages": max_n, "length": max_len}
    return V.finish(floor_eval=1000, floor_nontrivial=50, floors={"tables_judged": 1000, "pdf_iterations_judged": 300, "helper_calls_judged": 500})


def replay(rec):
    c = rec["case"]
    common.build()
    if c["kind"] == "table":
        r = common.run_harness("fmv", [{"id": "r", "pages": c["pages"]}], tag="c20r", nproc=1)["r"]
        f = judge_statement(c["spec"], r)
        print("\n---page---\n".join(c["pages"])[:3000])
    elif c["kind"] == "pages":
        case = dict(c["case"], id="r")
        r = common.run_harness("pdf", [case], tag="c20r", nproc=1)["r"]
        n = len(case["pages"])
        f = judge_pages(n, case["hints"], r) or (judge_groups(n, case["hints"], r["groups"]) if "groups" in r else None)
        if not f and case.get("statement") and r.get("statement_hinted") != r.get("statement_in_order"):
            f = {"what": "statement differs"}
    else:
        case = dict(c["case"], id="r")
        r = common.run_harness("pdf", [case], tag="c20r", nproc=1)["r"]
        f = judge_groups(case["num_pages_only"], case["hints"], r.get("groups", [])) if "panic" not in r else {"what": "panic"}
    print("result:", json.dumps(r)[:800])
    if f:
        print("replay finding:", json.dumps(f)[:600])
        print("VIOLATION property=%s replay=%s" % (PROP, sys.argv[2]))
        return 1
    print("replay: no finding reproduced")
    return 0


if __name__ == "__main__":
    sys.exit(common.main_dispatch(PROP, run, replay))
