"""C18: Questrade conversion keeps every trade and conserves USD cash (reference model over generated .xlsx)."""
import csv
import datetime
import io
import json
import os
import re
import sys
from fractions import Fraction

sys.path.insert(0, os.path.dirname(os.path.abspath(__file__)))
import common
import gen
import ref
from common import Verdict

PROP = "C18"
HEADERS = ["Transaction Date", "Settlement Date", "Action", "Symbol", "Description", "Quantity", "Price", "Gross Amount", "Commission", "Net Amount",
           "Currency", "Account #", "Activity Type", "Account Type"]
NUMERIC = {"Quantity", "Price", "Gross Amount", "Commission", "Net Amount"}
IGNORED = ["BRW", "TFI", "TF6", "MGR", "DEP", "NAC", "CON", "INT", "EFT", "RDM", ""]
ACCOUNT_TYPES = ["Individual margin", "Individual TFSA", "Individual RRSP", "Family RESP", "Joint margin", "Individual cash", "Spousal rrsp"]


def dstr(d):
    return d.isoformat() + " 12:00:00 AM"


def money(rng, lo, hi, dp):
    return gen.rand_dec(rng, lo, hi, dp)


def gen_export(rng):
    """-> list of activity dicts (spec) in sheet order."""
    n_acc = rng.choice([1, 1, 1, 2, 3])
    accounts = []
    for i in range(n_acc):
        accounts.append((str(rng.randint(10000000, 99999999)), rng.choice(ACCOUNT_TYPES)))
    acts = []
    d = datetime.date(rng.randint(2015, 2024), rng.randint(1, 12), rng.randint(1, 25))
    symbols = ["FOO", "BAR.TO", "VTI", "XYZ", "H038778", "DLR.TO"] + (["EFX", "IFX"] if rng.random() < 0.3 else [])
    n = rng.randint(3, 30)
    for i in range(n):
        d = d + datetime.timedelta(days=rng.choice([0, 0, 0, 1, 2, 5, 30]))
        acc = rng.choice(accounts)
        sd = d + datetime.timedelta(days=rng.choice([0, 2, 2, 3]))
        kind = rng.choices(["BUY", "SELL", "DIS", "LIQ", "FXT", "DIV", "IGN"], weights=[6, 5, 0.7, 0.7, 1.5, 1.5, 2])[0]
        cur = rng.choice(["CAD", "USD", "USD"])
        sym = rng.choice(symbols)
        base = {"td": d, "sd": sd, "acc": acc, "cur": cur, "desc": rng.choice(["SOME CORP", "ETF UNITS", "WE ACTED AS AGENT", "", "DIV 0.35/SH"]),
                "acttype": rng.choice(["Trades", "Dividends", "FX conversion", "Other"])}
        if kind in ("BUY", "SELL", "DIS", "LIQ"):
            q = money(rng, 0, 500, rng.choice([0, 0, 1, 4]))
            if Fraction(q) == 0:
                q = "1"
            price = money(rng, 0, 400, rng.choice([2, 2, 4, 6]))
            comm = money(rng, 0, 10, 2) if rng.random() < 0.7 else "0"
            if kind in ("DIS", "LIQ"):
                price = "0" if rng.random() < 0.7 else price
                comm = "0" if rng.random() < 0.8 else comm
            if kind == "SELL" and rng.random() < 0.07:
                price = "0"          # worthless shares sold for nothing, commission still charged
                comm = "4.95"
            sign = 1 if kind in ("BUY", "DIS") else -1
            gross = Fraction(q) * Fraction(price) * -sign
            net = gross - Fraction(comm)
            acts.append(dict(base, kind=kind, action=rng.choice([kind, kind.title(), kind.lower()]) if rng.random() < 0.3 else kind.title(),
                             sym=sym, qty=gen.dec_str(Fraction(q) * sign, 6), price=price, comm=gen.dec_str(-Fraction(comm), 6),
                             gross=gen.dec_str(gross, 12), net=gen.dec_str(net, 12)))
            if rng.random() < 0.08:
                acts.append(dict(acts[-1]))      # an order filled in two lots that agree in every cell: two activities, two rows
        elif kind == "FXT":
            usd = Fraction(money(rng, 1, 5000, 2)) * rng.choice([1, -1])
            rate = Fraction(money(rng, 1, 2, 4))
            if rate == 0:
                rate = Fraction(13, 10)
            cad = -(usd * rate)
            cad = Fraction(int(cad * 100), 100)
            if cad == 0:
                cad = Fraction(-1 if usd > 0 else 1, 100)
            legs = [dict(base, kind="FXT", action="FXT", sym="", qty="0", price="0", comm="0", gross="0", net=gen.dec_str(cad, 2), cur="CAD", sd=d),
                    dict(base, kind="FXT", action="FXT", sym="", qty="0", price="0", comm="0", gross="0", net=gen.dec_str(usd, 2), cur="USD", sd=d)]
            if rng.random() < 0.5:
                legs.reverse()
            if rng.random() < 0.3:
                # another activity of the same day is listed between the two legs of the conversion
                mid = dict(base, kind="BUY", action="Buy", sym=rng.choice(symbols), qty="3", price="10.00", comm="0", gross="-30", net="-30", cur="CAD", sd=d)
                legs = [legs[0], mid, legs[1]]
            acts += legs
        elif kind == "DIV":
            net = money(rng, 0, 300, 2)
            if Fraction(net) == 0:
                net = "1.23"
            if rng.random() < 0.15:
                net = "-" + net       # a dividend reversal / correction, or a dividend charged on a short position
            acts.append(dict(base, kind="DIV", action="DIV", sym=sym, qty="0", price="0", comm="0", gross=net, net=net))
        else:
            acts.append(dict(base, kind="IGN", action=rng.choice(IGNORED), sym=rng.choice(["", sym]), qty=money(rng, 0, 9, 0), price=money(rng, 0, 9, 2),
                             comm="0", gross=money(rng, 0, 99, 2), net=money(rng, 0, 99, 2)))
    return acts, accounts


def layout_rows(rng, acts, style):
    """Spreadsheet rows (cells) for the activities under a column layout."""
    cols = list(HEADERS)
    extra = []
    if style != "default":
        rng.shuffle(cols)
        for i in range(rng.randint(0, 3)):
            extra.append(("Extra %d" % i, "named"))
        if rng.random() < 0.3:
            # the user's own columns, named like Questrade's but for letter case or padding
            for nm in rng.sample(["price", "QUANTITY", "commission", " Net Amount", "symbol ", "CURRENCY", "action", "settlement date"], rng.randint(1, 3)):
                extra.append((nm, "named"))
        if style == "blank_header":
            for i in range(rng.randint(1, 2)):
                extra.append((None, "blank"))
        if style == "numeric_header":
            extra.append((123, "numhdr"))
    layout = [(c, "real") for c in cols]
    for e in extra:
        layout.insert(rng.randint(0, len(layout)), e)
    text_numbers = rng.random() < 0.4

    def cell(name, a):
        v = {"Transaction Date": dstr(a["td"]), "Settlement Date": dstr(a["sd"]), "Action": a["action"], "Symbol": a["sym"], "Description": a["desc"],
             "Quantity": a["qty"], "Price": a["price"], "Gross Amount": a["gross"], "Commission": a["comm"], "Net Amount": a["net"], "Currency": a["cur"],
             "Account #": a["acc"][0], "Activity Type": a["acttype"], "Account Type": a["acc"][1]}[name]
        if name in NUMERIC:
            if text_numbers and rng.random() < 0.7:
                return {"s": v}
            return {"n": v}
        if name == "Account #" and rng.random() < 0.3:
            return {"n": v}
        if v == "":
            return None if rng.random() < 0.7 else {"s": ""}
        return {"s": v}
    rows = []
    hdr = []
    for name, kind in layout:
        if kind == "blank":
            hdr.append(None)
        elif kind == "numhdr":
            hdr.append({"n": str(name)})
        else:
            hdr.append({"s": name})
    rows.append(hdr)
    for a in acts:
        r = []
        for name, kind in layout:
            if kind == "real":
                r.append(cell(name, a))
            else:
                r.append(rng.choice([{"s": "junk"}, {"n": "42.5"}, {"s": "2020-01-01"}, {"n": "7"}]))
        rows.append(r)
    return rows


def affiliate_of(acc_type):
    return "default (R)" if re.search(r"rrsp|tfsa|resp", acc_type, re.I) else "default"


def expected_output(acts, args):
    """-> (trade rows multiset, usd fx net per filter, fxt rates list)"""
    acc_re = re.compile(args["account"]) if args.get("account") else None
    sec_re = re.compile(args["security"]) if args.get("security") else None

    def acc_ok(a):
        return acc_re is None or acc_re.search("%s %s" % (a["acc"][1], a["acc"][0])) is not None
    trades = []
    usd_net = Fraction(0)
    fxt_rates = []
    i = 0
    pending_fxt = None
    for a in acts:
        if a["kind"] in ("BUY", "SELL", "DIS", "LIQ"):
            sym = "DLR.TO" if a["sym"] == "H038778" else a["sym"]
            act = "Buy" if a["kind"] in ("BUY", "DIS") else "Sell"
            q, p, c = abs(Fraction(a["qty"])), Fraction(a["price"]), abs(Fraction(a["comm"]))
            if acc_ok(a):
                if sec_re is None or sec_re.search(sym):
                    trades.append((sym, a["td"].isoformat(), a["sd"].isoformat(), act, q, p, c, a["cur"], affiliate_of(a["acc"][1])))
                if a["cur"] == "USD":
                    usd_net += (p * q if act == "Sell" else -(p * q)) - c
        elif a["kind"] == "DIV":
            if a["cur"] == "USD" and acc_ok(a):
                usd_net += Fraction(a["net"])
        elif a["kind"] == "FXT":
            if pending_fxt is None:
                pending_fxt = a
            else:
                cad, usd = (pending_fxt, a) if pending_fxt["cur"] == "CAD" else (a, pending_fxt)
                if acc_ok(a):
                    usd_net += Fraction(usd["net"])
                    fxt_rates.append((a["td"].isoformat(), abs(Fraction(usd["net"])), abs(Fraction(cad["net"]) / Fraction(usd["net"]))))
                pending_fxt = None
    return trades, usd_net, fxt_rates


def parse_out(text):
    rows = list(csv.reader(io.StringIO(text, newline="")))
    if not rows:
        return [], []
    hdr = rows[0]
    return hdr, [dict(zip(hdr, r)) for r in rows[1:]]


def judge(acts, args, res, layout_outputs):
    if "panic" in res:
        return {"what": "converter panicked", "panic": res["panic"]}
    if not res.get("ok"):
        return {"what": "well-formed export rejected", "err": res.get("err")}
    hdr, rows = parse_out(res["out"])
    trades, usd_net, fxt_rates = expected_output(acts, args)
    sec_re = re.compile(args["security"]) if args.get("security") else None
    got_trades = []
    fx_net = Fraction(0)
    got_fxt = []
    for r in rows:
        try:
            q, p, c = Fraction(r["shares"]), Fraction(r["amount/share"]), Fraction(r["commission"])
        except (ValueError, KeyError, ZeroDivisionError):
            return {"what": "output row has an unparsable number", "row": r}
        af = ref.af_norm(r.get("affiliate", ""))
        if r["security"].endswith(".FX"):
            if r["security"] != "USD.FX" or r["currency"] != "USD" or p != 1 or c != 0 or q <= 0:
                return {"what": "malformed USD.FX row", "row": r}
            fx_net += q if r["action"] == "Buy" else -q
            if r.get("exchange rate"):
                got_fxt.append((r["trade date"], q, Fraction(r["exchange rate"])))
            continue
        got_trades.append((r["security"], r["trade date"], r["settlement date"], r["action"], q, p, c, r["currency"], af))
    if not args.get("no_sort"):
        # documented order of the output: settlement date, then time of the trade, then currency purchases before
        # currency sales (so that the cash is there before it is spent), then sheet order
        last = {}
        prev_sd = None
        for r in rows:
            if prev_sd is not None and r["settlement date"] < prev_sd:
                return {"what": "output rows are not ordered by settlement date", "row": r}
            prev_sd = r["settlement date"]
            if r["security"] == "USD.FX":
                k = (r["settlement date"], r["trade date"])
                if r["action"] == "Buy" and last.get(k) == "Sell":
                    return {"what": "a currency purchase is listed after a currency sale of the same day (cash spent before it arrives)", "row": r}
                last[k] = r["action"]
    if sorted(got_trades) != sorted(trades):
        missing = [t for t in trades if t not in got_trades]
        extra = [t for t in got_trades if t not in trades]
        return {"what": "emitted trade rows differ from the export's BUY/SELL/DIS/LIQ activities",
                "missing": [[str(x) for x in t] for t in missing[:3]], "unexpected": [[str(x) for x in t] for t in extra[:3]]}
    fx_expected = not args.get("no_fx") and (sec_re is None or sec_re.search("USD.FX"))
    if not fx_expected:
        if any(r["security"].endswith(".FX") for r in rows):
            return {"what": "USD.FX rows emitted although filtered out"}
    else:
        if fx_net != usd_net:
            return {"what": "USD.FX rows do not add up to the net USD cash flow", "usd_fx_signed_total": str(fx_net), "net_usd_cash_flow": str(usd_net)}
        if not args.get("usd_exchange_rate"):
            a_, b_ = sorted(got_fxt), sorted(fxt_rates)
            same = len(a_) == len(b_) and all(x[0] == y[0] and x[1] == y[1] and abs(x[2] - y[2]) <= y[2] * Fraction(1, 10 ** 20) for x, y in zip(a_, b_))
            if not same:
                return {"what": "currency conversions do not carry the rate implied by their legs", "tool": [[str(x) for x in t] for t in a_[:3]],
                        "expected": [[str(x) for x in t] for t in b_[:3]]}
    if args.get("usd_exchange_rate"):
        for r in rows:
            if r["currency"] == "USD" and Fraction(r.get("exchange rate") or 0) != Fraction(args["usd_exchange_rate"]):
                return {"what": "--usd-exchange-rate not applied to a USD row", "row": r}
    for name, other in layout_outputs:
        if other.get("out") != res["out"] or other.get("ok") != res.get("ok"):
            return {"what": "output depends on the column layout", "layout": name,
                    "default_out": res["out"][:300], "layout_out": (other.get("out") or "")[:300], "layout_err": other.get("err"), "panic": other.get("panic")}
    return None


def run(tier):
    seed = common.seed()
    common.build(bins=True)
    V = Verdict(PROP, tier)
    V.rule = ("generated well-formed exports (BUY/SELL/DIS/LIQ/FXT pairs/DIV and the ignored codes, 1-3 accounts of every type, CAD/USD, same-day clusters, the "
              "H038778 alias, zero-price sales with a commission) written as real .xlsx under 4 layouts (default; permuted with unrelated named columns; with "
              "blank-headed data columns; with a numeric header cell; numbers as numeric or text cells) and run with option combinations; the written CSV is "
              "compared with the spec as a multiset of trade rows, USD cash conservation, implied conversion rates, layout invariance, and fed to acb. "
              "non-trivial = >=3 activity kinds and USD cash flows under a non-default layout")
    n = {"quick": 400, "thorough": 20000}[tier]
    wd = common.workdir("c18files")
    try:
        cases = []
        meta = {}
        for i in range(n):
            rng = common.rng_for(seed, PROP, i)
            acts, accounts = gen_export(rng)
            args = {}
            if len(accounts) > 1:
                # documented as a regular expression over '{account type} {account number}'
                args["account"] = rng.choice([".", accounts[0][0], re.escape(accounts[0][1]), "^" + re.escape(accounts[0][1]),
                                              "^%s %s$" % (re.escape(accounts[0][1]), accounts[0][0]), accounts[0][0] + "$"])
            elif rng.random() < 0.3:
                args["account"] = rng.choice([accounts[0][0][:4], "^" + re.escape(accounts[0][1].split(" ")[0]),
                                              "^%s %s$" % (re.escape(accounts[0][1]), accounts[0][0])])
            if rng.random() < 0.2:
                args["security"] = rng.choice(["FOO", "^VTI$", r"\.TO$", "USD.FX", "FX|BAR"])
            if rng.random() < 0.2:
                args["no_fx"] = True
            if rng.random() < 0.2:
                args["no_sort"] = True
            if rng.random() < 0.2:
                args["usd_exchange_rate"] = rng.choice(["1.3", "1.2345", "1"])
            sheet_name = rng.choice(["Activities", "Sheet1"])
            layouts = []
            for style in ("default", "permuted", "blank_header", "numeric_header"):
                lr = common.rng_for(seed, PROP, i, style)
                cid = "x%06d-%s" % (i, style)
                cases.append({"id": cid, "path": os.path.join(wd, cid + ".xlsx"),
                              "sheets": [{"name": sheet_name, "rows": layout_rows(lr, acts, style)}], "args": args})
                layouts.append(cid)
            meta[i] = (acts, args, layouts, accounts)
        res = common.run_harness("xlsx", cases, tag="c18")
        accept_cases = []
        for i, (acts, args, layouts, accounts) in meta.items():
            V.count()
            r0 = res.get(layouts[0], {})
            others = [(cid.split("-")[1], res.get(cid, {})) for cid in layouts[1:]]
            if "harness_error" in r0 or "crash" in r0:
                V.unjudged += 1
                continue
            f = judge(acts, args, r0, others)
            V.bump("exports_judged")
            V.bump("layout_runs", len(layouts))
            kinds = {a["kind"] for a in acts}
            usd = any(a["cur"] == "USD" and a["kind"] != "IGN" for a in acts)
            if len(kinds - {"IGN"}) >= 3 and usd:
                V.nontriv(i)
            if f:
                V.violation("%s [export #%d args=%s]" % (json.dumps(f)[:600], i, args),
                            {"kind": "export", "prop": PROP, "index": i, "args": args}, {"what": f["what"]})
            else:
                V.sample({"activities": [{k: str(v) for k, v in a.items()} for a in acts[:3]], "args": args, "out": r0["out"][:400]}, cap=2)
                if r0["out"].strip():
                    y0 = min(a["td"].year for a in acts)
                    y1 = max(a["sd"].year for a in acts)
                    rates = {str(y): [[(datetime.date(y, 1, 1) + datetime.timedelta(days=k)).isoformat(), "1.3"] for k in range(0, 366)
                                      if (datetime.date(y, 1, 1) + datetime.timedelta(days=k)).year == y] for y in range(y0, y1 + 1)}
                    accept_cases.append({"id": "a%06d" % i, "files": [["converted.csv", r0["out"]]], "init": [], "full": True, "today": "2035-01-01",
                                         "remote": {"kind": "mock", "years": rates}, "want": ["model"]})
        ares = common.run_harness("app", accept_cases, tag="c18a")
        for c in accept_cases:
            r = ares.get(c["id"], {})
            V.bump("outputs_fed_to_acb")
            if "panic" in r or not r.get("ok"):
                V.violation("acb does not accept the converter's output: %s" % json.dumps(r.get("err") or r.get("panic"))[:300],
                            {"kind": "acb_accept", "prop": PROP, "csv": c["files"][0][1]}, {"what": "output not accepted by acb"})
        cli_sample(V, cases, res, wd, 8 if tier == "quick" else 60)
    finally:
        common.cleanup(wd)
    return V.finish(floor_eval=100, floor_nontrivial=20, floors={"exports_judged": 200, "outputs_fed_to_acb": 100, "binary_runs": 4})


def cli_sample(V, cases, res, wd, k):
    """The real tx-export-convert binary prints what the library path returned."""
    for c in cases[:k * 4:4]:
        r0 = res.get(c["id"], {})
        if not os.path.exists(c["path"]):
            continue
        args = [c["path"]]
        a = c["args"]
        if a.get("account"):
            args += ["--account", a["account"]]
        if a.get("security"):
            args += ["--security", a["security"]]
        if a.get("no_fx"):
            args.append("--no-fx")
        if a.get("no_sort"):
            args.append("--no-sort")
        if a.get("usd_exchange_rate"):
            args += ["--usd-exchange-rate", a["usd_exchange_rate"]]
        r = common.run_cli("tx-export-convert", args, home=wd)
        V.bump("binary_runs")
        if r["rc"] not in (0, 1) or b"panicked at" in r["err"]:
            V.violation("tx-export-convert crashed rc=%s %s" % (r["rc"], r["err"][-200:]), {"kind": "cli", "prop": PROP, "args": args}, {"what": "binary crashed"})
        elif (r["rc"] == 0) != bool(r0.get("ok")) or r["out"].decode("utf-8", "replace") != r0.get("out"):
            V.violation("tx-export-convert output differs from the library path", {"kind": "cli", "prop": PROP, "args": args}, {"what": "binary differs from library"})


def replay(rec):
    c = rec["case"]
    common.build()
    if c["kind"] != "export":
        print(json.dumps(c)[:1000])
        return 0
    seed = rec["case"].get("seed", common.seed())
    i = c["index"]
    rng = common.rng_for(seed, PROP, i)
    acts, accounts = gen_export(rng)
    wd = common.workdir("c18r")
    try:
        cases = []
        for style in ("default", "permuted", "blank_header", "numeric_header"):
            lr = common.rng_for(seed, PROP, i, style)
            cases.append({"id": style, "path": os.path.join(wd, style + ".xlsx"), "sheets": [{"name": "Activities", "rows": layout_rows(lr, acts, style)}], "args": c["args"]})
        res = common.run_harness("xlsx", cases, tag="c18r", nproc=1)
        f = judge(acts, c["args"], res["default"], [(s, res[s]) for s in ("permuted", "blank_header", "numeric_header")])
        print(res["default"].get("out"), res["default"].get("err"))
        if f:
            print("replay finding:", json.dumps(f)[:800])
            print("VIOLATION property=%s replay=%s" % (PROP, sys.argv[2]))
            return 1
        print("replay: no finding reproduced (note: replay regenerates export #%d from VERIF_SEED=%s)" % (i, seed))
        return 0
    finally:
        common.cleanup(wd)


if __name__ == "__main__":
    sys.exit(common.main_dispatch(PROP, run, replay))
