"""Reference model of Bank of Canada publication calendars and of the rate the statement (C12) says a
look-up must return; builders for the JSON bodies served by the harness's fake HTTP requester."""
import datetime
import json
from fractions import Fraction

NOON = "IEXE0101"      # USD->CAD as published, years <= 2016 (published until 2017-04-28)
DAILY = "FXCADUSD"     # CAD->USD, to be inverted, years >= 2017 (published from 2017-01-03)


def D(s):
    return datetime.date.fromisoformat(s)


def series_for_year(y):
    return DAILY if y >= 2017 else NOON


class Calendar:
    """published[date] = (series, literal value string). Only valid, positive observations count."""

    def __init__(self):
        self.published = {}
        self.malformed = {}    # date -> raw observation dict (does not count as published)

    def rate(self, d):
        if d not in self.published:
            return None
        series, lit = self.published[d]
        v = Fraction(lit)
        return v if series == NOON else 1 / v

    def restricted(self, before):
        """The data a run on day `before` can see at least: everything published before that day."""
        c = Calendar()
        c.published = {d: v for d, v in self.published.items() if d < before}
        c.malformed = {d: v for d, v in self.malformed.items() if d < before}
        return c

    def bodies(self, extra_today=None):
        """-> {series: {year: json body}} in the shape of the valet API."""
        out = {}
        items = {}
        for d, (series, lit) in self.published.items():
            items.setdefault((series, d.year), []).append((d, {"d": d.isoformat(), series: {"v": lit}}))
        for d, obs in self.malformed.items():
            series = obs.get("_series", series_for_year(d.year))
            o = {k: v for k, v in obs.items() if k != "_series"}
            items.setdefault((series, d.year), []).append((d, o))
        for (series, y), obs in items.items():
            obs.sort(key=lambda x: x[0])
            out.setdefault(series, {})[str(y)] = json.dumps({"observations": [o for _, o in obs]})
        return out


def expected(cal, d, today):
    """-> ('ok', rate_date, rate) or ('err',)."""
    r = cal.rate(d)
    if r is not None:
        return ("ok", d, r)
    if d >= today:
        return ("err",)
    for k in range(1, 8):
        p = d - datetime.timedelta(days=k)
        r = cal.rate(p)
        if r is not None:
            return ("ok", p, r)
        # a preceding day that is today or later cannot occur since p < d < today
    return ("err",)


def gen_calendar(rng, y0, y1, style=None):
    """Business-day calendar for years y0..y1 with holidays, longer gaps and malformed entries."""
    cal = Calendar()
    d = datetime.date(y0, 1, 1)
    end = datetime.date(y1, 12, 31)
    gap_left = 0
    noon_level = Fraction(rng.randint(9500, 14500), 10000)
    while d <= end:
        series = series_for_year(d.year)
        # the real series overlap in early 2017; the tool must ask for the daily one
        pub = d.weekday() < 5
        if (d.month, d.day) in ((1, 1), (12, 25), (7, 1), (12, 26)):
            pub = False
        if gap_left > 0:
            pub = False
            gap_left -= 1
        elif rng.random() < 0.012:
            gap_left = rng.choice([1, 2, 3, 4, 5, 6, 7, 8, 9, 11])
            pub = False
        if d.year == 2017 and d < datetime.date(2017, 1, 3):
            pub = False
        if pub:
            noon_level += Fraction(rng.randint(-60, 60), 10000)
            noon_level = max(Fraction(8, 10), min(Fraction(16, 10), noon_level))
            if series == NOON:
                lit = "%.4f" % float(noon_level)
            else:
                lit = "%.4f" % (1 / float(noon_level))
            if rng.random() < 0.03:
                # malformed observation: does not count as published
                cal.malformed[d] = rng.choice([
                    {"d": d.isoformat(), series: {"v": "abc"}},
                    {"d": d.isoformat(), series: {"v": "0"}},
                    {"d": d.isoformat(), series: {"v": "-1.2"}},
                    {"d": d.isoformat(), series: 5},
                    {"d": d.isoformat(), series: {}},
                    {"d": d.isoformat()},
                ])
                cal.malformed[d]["_series"] = series
            else:
                cal.published[d] = (series, lit)
        d += datetime.timedelta(days=1)
    # noon series also exists for early 2017 (a tool asking for the wrong series would see it)
    return cal


def add_noon_2017_overlap(rng, cal):
    """Bodies for the noon series in 2017-01-02..2017-04-28 with slightly different values."""
    extra = {}
    d = datetime.date(2017, 1, 2)
    while d <= datetime.date(2017, 4, 28):
        if d.weekday() < 5:
            extra[d] = "%.4f" % (1.30 + rng.randint(0, 500) / 10000.0)
        d += datetime.timedelta(days=1)
    return extra


def bodies_with_overlap(cal, overlap):
    b = cal.bodies()
    if overlap:
        obs = [{"d": d.isoformat(), NOON: {"v": v}} for d, v in sorted(overlap.items())]
        b.setdefault(NOON, {})["2017"] = json.dumps({"observations": obs})
    return b
