"""C12: USD rows use the Bank of Canada rate of the trade date or the last one before it."""
import datetime
import json
import os
import sys
from fractions import Fraction

sys.path.insert(0, os.path.dirname(os.path.abspath(__file__)))
import common
import gen
import ref
import ratesref as rr
from common import Verdict
from ledger import mkrow

PROP = "C12"
REL = Fraction(1, 10 ** 20)


def remote_spec(cal, overlap=None):
    return {"kind": "json", "series": rr.bodies_with_overlap(cal, overlap)}


def judge_lookup(cal_visible, d, today, lk):
    """lk: harness lookup record. -> finding or None"""
    exp = rr.expected(cal_visible, d, today)
    if exp[0] == "err":
        if "err" not in lk:
            return {"what": "a rate was returned although none is published for the date or the 7 preceding days (or the date is today or later)",
                    "date": d.isoformat(), "today": today.isoformat(), "returned": [lk.get("rate_date"), lk.get("rate")]}
        if not lk["err"].strip():
            return {"what": "error without explanation", "date": d.isoformat()}
        return None
    if "err" in lk:
        return {"what": "look-up failed although a rate is published within the preceding seven days", "date": d.isoformat(),
                "today": today.isoformat(), "expected": [exp[1].isoformat(), str(exp[2])], "err": lk["err"][:200]}
    got_d = rr.D(lk["rate_date"])
    got_r = Fraction(lk["rate"])
    if got_r <= 0:
        return {"what": "non-positive rate returned (placeholder)", "date": d.isoformat(), "returned": lk["rate"]}
    if got_d != exp[1]:
        kind = "later day" if got_d > d else ("older than 7 days" if (d - got_d).days > 7 else "not the most recent publication")
        return {"what": "rate of the wrong day returned (%s)" % kind, "date": d.isoformat(), "returned_date": lk["rate_date"],
                "expected_date": exp[1].isoformat()}
    if abs(got_r - exp[2]) > REL * exp[2]:
        return {"what": "rate differs from the published one (noon as published, daily inverted)", "date": d.isoformat(),
                "returned": lk["rate"], "expected": str(exp[2]), "expected_float": float(exp[2])}
    return None


def interesting_dates(rng, cal, y0, y1, today, n):
    pubs = sorted(cal.published)
    out = set()
    # around gaps
    for a, b in zip(pubs, pubs[1:]):
        g = (b - a).days
        if g >= 4:
            for k in range(1, g + 1):
                out.add(a + datetime.timedelta(days=k))
    for y in range(y0, y1 + 1):
        for k in range(-3, 10):
            out.add(datetime.date(y, 1, 1) + datetime.timedelta(days=k))
    for k in range(-9, 4):
        out.add(today + datetime.timedelta(days=k))
    out = sorted(d for d in out if datetime.date(y0, 1, 1) <= d <= datetime.date(y1, 12, 31) + datetime.timedelta(days=5))
    rng.shuffle(out)
    pick = out[:n]
    while len(pick) < n:
        pick.append(datetime.date(y0, 1, 1) + datetime.timedelta(days=rng.randint(0, 365 * (y1 - y0 + 1))))
    return pick


def exhaustive_family():
    """(gap length 0..9) x (look-up date Dec 25..Jan 10) x (year kind). One look-up each."""
    out = []
    for y, kind in ((2015, "noon/noon"), (2017, "noon/daily"), (2018, "daily/daily"), (2019, "daily/daily")):
        for off in range(-7, 11):
            d = datetime.date(y, 1, 1) + datetime.timedelta(days=off)
            for g in range(0, 10):
                cal = rr.Calendar()
                L = d - datetime.timedelta(days=g)
                # publications: a run of days up to L, then nothing until after d
                for k in range(0, 12):
                    p = L - datetime.timedelta(days=k)
                    series = rr.series_for_year(p.year)
                    lit = "1.%04d" % (2000 + (p.toordinal() % 700)) if series == rr.NOON else "0.%04d" % (7000 + (p.toordinal() % 900))
                    cal.published[p] = (series, lit)
                # something after d as well (a later day must never be used)
                for k in range(1, 4):
                    p = d + datetime.timedelta(days=k)
                    series = rr.series_for_year(p.year)
                    cal.published[p] = (series, "1.9999" if series == rr.NOON else "0.5001")
                out.append(("gap=%d date=%s %s" % (g, d.isoformat(), kind), cal, d, d + datetime.timedelta(days=30)))
    return out


def run(tier):
    seed = common.seed()
    common.build(bins=True)
    V = Verdict(PROP, tier)
    V.rule = ("publication calendars (business days, holidays, gaps of 1-11 days, year boundaries, malformed observations, the 2017 series overlap) served as "
              "Bank-of-Canada JSON per series by a fake requester, so the real URL choice, JSON parser and RateLoader run; 'today' set through the public test "
              "override; every look-up uses a fresh loader and cache, and the same look-ups are repeated inside one run in ascending date order. Exhaustive family: gap length 0-9 x look-up date Dec 25..Jan 10 x 4 year kinds. "
              "Application rows: USD amounts and commissions without a rate, explicit rates, CAD with a rate, other currencies. non-trivial = look-up "
              "answered from a preceding day, or with an error, or across 1 January")
    cases = []
    plan = {}
    # (B) exhaustive family
    fam = exhaustive_family()
    for i, (name, cal, d, today) in enumerate(fam):
        cid = "fam%05d" % i
        cases.append({"id": cid, "cache": "none", "runs": [{"today": today.isoformat(), "remote": remote_spec(cal), "lookups": [d.isoformat()]}]})
        plan[cid] = [(name, cal, d, today)]
    # (A) random calendars
    ncal = {"quick": 40, "thorough": 1200}[tier]
    nlk = {"quick": 60, "thorough": 120}[tier]
    for i in range(ncal):
        rng = common.rng_for(seed, PROP, "cal", i)
        y0 = rng.choice([2013, 2014, 2015, 2016, 2016, 2017, 2018, 2021])
        y1 = y0 + rng.choice([0, 1, 1, 2])
        cal = rr.gen_calendar(rng, y0, y1)
        overlap = rr.add_noon_2017_overlap(rng, cal) if y0 <= 2017 <= y1 else None
        today = datetime.date(y1, rng.randint(1, 12), rng.randint(1, 28)) if rng.random() < 0.6 else datetime.date(y1 + 1, 2, 10)
        vis = cal.restricted(today + datetime.timedelta(days=1 if rng.random() < 0.3 else 0))
        dates = interesting_dates(rng, vis, y0, y1, today, nlk)
        cid = "cal%05d" % i
        runs = [{"today": today.isoformat(), "remote": remote_spec(vis, overlap), "lookups": [d.isoformat()]} for d in dates]
        cases.append({"id": cid, "cache": "none", "runs": runs})
        plan[cid] = [("calendar #%d" % i, vis, d, today) for d in dates]
        # (C) the same look-ups inside ONE run of one loader, in ascending date order (as acb processes a file): what an
        # earlier look-up resolved to must not change what a later one returns (long gaps make the 7-day limit bite)
        sdates = sorted(set(dates))
        cid2 = "seq%05d" % i
        cases.append({"id": cid2, "cache": "none", "runs": [{"today": today.isoformat(), "remote": remote_spec(vis, overlap),
                                                             "lookups": [d.isoformat() for d in sdates]}]})
        plan[cid2] = [("calendar #%d, one run, ascending" % i, vis, d, today) for d in sdates]
    res = common.run_harness("rates", cases, tag="c12")
    for c in cases:
        r = res.get(c["id"], {})
        if "panic" in r:
            V.count()
            V.violation("look-up panicked: %s [%s]" % (json.dumps(r["panic"])[:300], c["id"]),
                        {"kind": "lookup", "prop": PROP, "case": {"id": "r", "cache": "none", "runs": c["runs"][:1]}}, {"what": "rate look-up panicked"})
            continue
        if "runs" not in r:
            V.unjudged += 1
            continue
        if c["id"].startswith("seq"):
            # one run, many look-ups: pair each planned look-up with its answer
            lks = r["runs"][0]["lookups"] if r["runs"] else []
            pairs = [(pl, {"lookups": [lk]}) for pl, lk in zip(plan[c["id"]], lks)]
            V.bump("in_run_sequence_lookups", len(pairs))
        else:
            pairs = list(zip(plan[c["id"]], r["runs"]))
        for (name, vis, d, today), run_ in pairs:
            V.count()
            if not run_["lookups"]:
                V.unjudged += 1
                continue
            lk = run_["lookups"][0]
            V.bump("lookups_judged")
            f = judge_lookup(vis, d, today, lk)
            exp = rr.expected(vis, d, today)
            if exp[0] == "err" or exp[1] != d or (exp[0] == "ok" and exp[1].year != d.year):
                V.nontriv((c["id"], d.isoformat()))
            if exp[0] == "ok" and exp[1].year != d.year:
                V.bump("answers_across_new_year")
            if exp[0] == "err":
                V.bump("expected_errors")
            if f:
                V.violation("%s [%s]" % (json.dumps(f)[:500], name),
                            {"kind": "lookup", "prop": PROP,
                             "case": {"id": "r", "cache": "none", "runs": [c["runs"][0] if c["id"].startswith("seq") else c["runs"][plan[c["id"]].index((name, vis, d, today))]]},
                             "published": {k.isoformat(): list(v) for k, v in vis.published.items() if abs((k - d).days) < 15},
                             "date": d.isoformat(), "today": today.isoformat()},
                            {"what": f["what"]})
    V.extra["exhaustive_family_cases"] = len(fam)
    V.extra["exhaustive_family_complete"] = True
    app_rows(V, tier, seed)
    cli_cache_slice(V, tier, seed)
    V.sample({"lookup": fam[37][0], "published": {k.isoformat(): v[1] for k, v in sorted(fam[37][1].published.items())}})
    return V.finish(floor_eval=500, floor_nontrivial=50, floors={"lookups_judged": 1000, "app_rows_judged": 100, "binary_rows_judged": 10})


def cli_cache_slice(V, tier, seed):
    """The same rule through the real binary: $HOME/.acb holds complete year files written by the real cache writer
    (so nothing needs downloading), and USD rows without a rate are converted by `acb`."""
    import csv as _csv
    n = {"quick": 3, "thorough": 24}[tier]
    wd = common.workdir("c12cli")
    real_today = datetime.date.today()
    try:
        for i in range(n):
            rng = common.rng_for(seed, PROP, "cli", i)
            y = rng.choice([2014, 2015, 2016, 2019, 2021, 2022])
            cal = rr.gen_calendar(rng, y - 1, y)
            home = os.path.join(wd, "h%d" % i)
            cache = os.path.join(home, ".acb")
            os.makedirs(cache)
            filled = datetime.date(y + 1, 2, 10)
            case = {"id": "p", "cache": "csv", "dir": cache,
                    "runs": [{"today": filled.isoformat(), "remote": remote_spec(cal),
                              "lookups": [datetime.date(y - 1, 6, 1).isoformat(), datetime.date(y, 6, 1).isoformat()]}]}
            common.run_harness("rates", [case], tag="c12p", nproc=1)
            if not all(os.path.exists(os.path.join(cache, "rates-%d.csv" % yy)) for yy in (y - 1, y)):
                V.unjudged += 1
                continue
            dates = [d for d in interesting_dates(rng, cal, y, y, filled, 40) if d.year == y][:16]
            good, bad = [], []
            for d in dates:
                e = rr.expected(cal, d, real_today)
                (bad if e[0] == "err" else good).append((d, e))

            def run(rows_dates, tag):
                inp = os.path.join(home, "in-%s.csv" % tag)
                lines = ["security,trade date,settlement date,action,shares,amount/share,currency"]
                for k, (d, e) in enumerate(rows_dates):
                    lines.append("S%d,%s,%s,Buy,10,2.00,USD" % (k, d.isoformat(), (d + datetime.timedelta(days=2)).isoformat()))
                with open(inp, "w") as f:
                    f.write("\n".join(lines) + "\n")
                od = os.path.join(home, "out-%s" % tag)
                return common.run_cli("acb", [inp, "-d", od, "--print-full-values"], home=home), od
            if good:
                r, od = run(good, "good")
                V.count()
                V.bump("binary_rows_judged", len(good))
                V.nontriv(("cli", i))
                if r["rc"] != 0:
                    V.violation("acb fails although every row's rate is in the cache: %s [cli calendar #%d]" % (r["err"][-300:].decode("utf-8", "replace"), i),
                                {"kind": "cli", "prop": PROP, "dates": [d.isoformat() for d, _ in good]}, {"what": "binary: determined rate rejected"})
                else:
                    for k, (d, e) in enumerate(good):
                        pth = os.path.join(od, "S%d.csv" % k)
                        cell = None
                        if os.path.exists(pth):
                            with open(pth, newline="") as f:
                                rows_ = list(_csv.reader(f))
                            if len(rows_) > 1 and "Amount" in rows_[0]:
                                cell = rows_[1][rows_[0].index("Amount")]
                        want = Fraction(20) * e[2]
                        got = ref.first_money(cell) if cell else None
                        if got is None or abs(got - want) > Fraction(1, 10 ** 12) * max(1, want):
                            V.violation("acb converts the row of %s with another rate than the statement prescribes: cell %r, expected %s (rate of %s) [cli calendar #%d]"
                                        % (d, cell, str(want), e[1], i),
                                        {"kind": "cli", "prop": PROP, "date": d.isoformat(), "cell": cell, "expected_rate_date": str(e[1])},
                                        {"what": "binary: wrong rate"})
                            break
            for j, (d, e) in enumerate(bad[:3]):
                r, od = run([(d, e)], "bad%d" % j)
                V.count()
                V.bump("binary_error_rows_judged")
                if r["rc"] == 0:
                    V.violation("acb accepts the row of %s although no rate was published for it or the 7 days before [cli calendar #%d]" % (d, i),
                                {"kind": "cli", "prop": PROP, "date": d.isoformat()}, {"what": "binary: missing rate accepted"})
                elif not r["err"].strip():
                    V.violation("acb stops without an explanatory error for %s" % d, {"kind": "cli", "prop": PROP, "date": d.isoformat()},
                                {"what": "binary: silent failure"})
    finally:
        common.cleanup(wd)


def app_rows(V, tier, seed):
    """Through the application: rows with and without explicit rates."""
    n = {"quick": 150, "thorough": 5000}[tier]
    cases = []
    plan = {}
    for i in range(n):
        rng = common.rng_for(seed, PROP, "app", i)
        y = rng.choice([2015, 2016, 2017, 2018, 2022])
        cal = rr.gen_calendar(rng, y - 1, y)
        overlap = rr.add_noon_2017_overlap(rng, cal) if y - 1 <= 2017 <= y else None
        today = datetime.date(y + 1, 3, 1)
        kind = rng.choice(["usd_norate", "usd_norate", "usd_comm_norate", "usd_explicit", "cad_rate_1", "cad_rate_bad", "eur_norate", "eur_rate",
                           "usd_td_vs_sd", "usd_jan1", "fx_trade_cad_comm_norate", "fx_trade_cad_comm_rate1", "fx_trade_cad_comm_bad",
                           "fx_trade_eur_comm_norate", "fx_trade_eur_comm_rate", "usd_trade_usd_comm_own_rate",
                           "usd_norate_then_eur_norate_same_day", "usd_norate_with_gbp_comm_norate", "usdt_norate", "cadc_own_rate", "usdc_comm_norate"])
        td = datetime.date(y, rng.randint(1, 12), rng.randint(1, 28))
        if kind == "usd_jan1":
            td = datetime.date(y, 1, rng.choice([1, 2, 3]))
        sd = td + datetime.timedelta(days=rng.choice([0, 2, 3, 5]))
        row = mkrow("FOO", sd.isoformat(), "Buy", "", td=td.isoformat(), shares=str(rng.randint(1, 50)), aps=gen.rand_dec(rng, 1, 200, 2))
        exp = {"kind": kind}
        extra_rows = []
        if kind in ("usd_norate", "usd_td_vs_sd", "usd_jan1"):
            row["cur"] = "USD"
            exp["rate_from"] = td
        elif kind == "usd_comm_norate":
            row["cur"] = "CAD"
            row["comm"] = gen.rand_dec(rng, 1, 20, 2)
            row["ccur"] = "USD"
            exp["comm_rate_from"] = td
        elif kind == "usd_explicit":
            row["cur"] = "USD"
            row["fx"] = gen.rand_dec(rng, 1, 2, 4)
            exp["rate"] = Fraction(row["fx"])
        elif kind == "cad_rate_1":
            row["cur"] = "CAD"
            row["fx"] = rng.choice(["1", "1.0", "1.00"])
            exp["rate"] = Fraction(1)
        elif kind == "cad_rate_bad":
            row["cur"] = "CAD"
            row["fx"] = rng.choice(["1.5", "0.99", "1.0001"])
            exp["error"] = True
        elif kind == "eur_norate":
            row["cur"] = "EUR"
            exp["error"] = True
        elif kind == "usdt_norate":
            row["cur"] = rng.choice(["USDT", "USDC", "USDX", "CADC"])     # other currencies, whatever their first letters
            exp["error"] = True
        elif kind == "cadc_own_rate":
            row["cur"] = rng.choice(["CADC", "USDT"])
            row["fx"] = gen.rand_dec(rng, 0, 2, 4).replace("0.0000", "0.9800")
            if Fraction(row["fx"]) == 0:
                row["fx"] = "0.98"
            exp["rate"] = Fraction(row["fx"])
        elif kind == "usdc_comm_norate":
            row["cur"] = "CAD"
            row["comm"] = gen.rand_dec(rng, 1, 20, 2)
            row["ccur"] = rng.choice(["USDT", "USDC"])
            exp["error"] = True
        elif kind == "usd_norate_then_eur_norate_same_day":
            # a USD row whose rate is looked up, then another currency without a rate on the same trade date
            row["cur"] = "USD"
            extra_rows = [dict(mkrow("BAR", sd.isoformat(), "Buy", "", td=td.isoformat(), shares="3", aps="10.00"), cur=rng.choice(["EUR", "GBP"]))]
            exp["error"] = True
        elif kind == "usd_norate_with_gbp_comm_norate":
            row["cur"] = "USD"
            row["comm"] = gen.rand_dec(rng, 1, 20, 2)
            row["ccur"] = "GBP"
            exp["error"] = True
        elif kind.startswith("fx_trade_") or kind == "usd_trade_usd_comm_own_rate":
            # the commission has its own currency column: the same three rules apply to it, independently of the trade's currency
            row["cur"] = rng.choice(["USD", "EUR"]) if kind != "usd_trade_usd_comm_own_rate" else "USD"
            row["fx"] = gen.rand_dec(rng, 1, 2, 4)
            row["comm"] = gen.rand_dec(rng, 1, 20, 2)
            exp["comm_cell"] = True
            if kind == "fx_trade_cad_comm_norate":
                row["ccur"] = "CAD"
                exp["rate"] = Fraction(1)
            elif kind == "fx_trade_cad_comm_rate1":
                row["ccur"], row["cfx"] = "CAD", rng.choice(["1", "1.0"])
                exp["rate"] = Fraction(1)
            elif kind == "fx_trade_cad_comm_bad":
                row["ccur"], row["cfx"] = "CAD", rng.choice(["1.5", "0.99", "1.0001"])
                exp["error"] = True
            elif kind == "fx_trade_eur_comm_norate":
                row["ccur"] = "GBP"
                exp["error"] = True
            elif kind == "fx_trade_eur_comm_rate":
                row["ccur"], row["cfx"] = "GBP", gen.rand_dec(rng, 1, 2, 4)
                exp["rate"] = Fraction(row["cfx"])
            else:
                row["ccur"], row["cfx"] = "USD", gen.rand_dec(rng, 1, 2, 4)
                exp["rate"] = Fraction(row["cfx"])
        else:
            row["cur"] = "EUR"
            row["fx"] = gen.rand_dec(rng, 1, 2, 4)
            exp["rate"] = Fraction(row["fx"])
        cid = "app%05d" % i
        text = gen.rows_to_csv([row] + extra_rows, gen.used_cols([row] + extra_rows))
        cases.append({"id": cid, "files": [["in.csv", text]], "init": [], "full": True, "today": today.isoformat(),
                      "remote": remote_spec(cal, overlap), "want": ["model"]})
        plan[cid] = (row, exp, cal, today, text)
    res = common.run_harness("app", cases, tag="c12app")
    for cid, (row, exp, cal, today, text) in plan.items():
        r = res.get(cid, {})
        V.count()
        if "panic" in r or "crash" in r:
            V.unjudged += 1
            continue
        V.bump("app_rows_judged")
        f = None
        want_rate = exp.get("rate")
        for key in ("rate_from", "comm_rate_from"):
            if key in exp:
                e = rr.expected(cal, exp[key], today)
                if e[0] == "err":
                    exp["error"] = True
                else:
                    want_rate = e[2]
        if exp.get("error"):
            if r.get("ok"):
                f = {"what": "row accepted although it needs a rate that does not exist / is not allowed", "kind": exp["kind"], "row": row}
            elif not (r.get("err") or "").strip():
                f = {"what": "run stopped without an explanatory error", "kind": exp["kind"]}
        else:
            if not r.get("ok"):
                f = {"what": "row rejected although its rate is determined", "kind": exp["kind"], "err": r.get("err"), "row": row}
            else:
                t = r["tables"]["FOO"]
                col = {h: i for i, h in enumerate(t["header"])}
                cellname = "Commission" if (exp["kind"] == "usd_comm_norate" or exp.get("comm_cell")) else "Amount"
                cell = t["rows"][0][col[cellname]]
                local = ref.first_money(cell)
                base = Fraction(row["comm"]) if (exp["kind"] == "usd_comm_norate" or exp.get("comm_cell")) else Fraction(row["shares"]) * Fraction(row["aps"])
                want = base * want_rate
                if abs(local - want) > Fraction(1, 10 ** 12) * max(1, want):
                    f = {"what": "converted amount does not use the rate the statement prescribes", "kind": exp["kind"], "cell": cell,
                         "expected_local": str(want), "expected_rate": str(want_rate), "row": row}
        if exp["kind"] in ("usd_jan1", "usd_td_vs_sd", "usd_comm_norate") or exp.get("comm_cell"):
            V.nontriv((cid, "app"))
        if f:
            V.violation("%s" % json.dumps(f)[:500], {"kind": "approw", "prop": PROP, "case": [c for c in cases if c["id"] == cid][0], "exp_kind": exp["kind"]},
                        {"what": f["what"]})


def replay(rec):
    c = rec["case"]
    common.build()
    if c["kind"] == "lookup":
        r = common.run_harness("rates", [c["case"]], tag="c12r", nproc=1)["r"]
        lk = r["runs"][0]["lookups"][0]
        print("published around the date:", json.dumps(c["published"], sort_keys=True))
        print("look-up:", json.dumps(lk)[:500])
        cal = rr.Calendar()
        cal.published = {rr.D(k): tuple(v) for k, v in c["published"].items()}
        f = judge_lookup(cal, rr.D(c["date"]), rr.D(c["today"]), lk)
        if f:
            print("replay finding:", json.dumps(f))
            print("VIOLATION property=%s replay=%s" % (PROP, sys.argv[2]))
            return 1
        return 0
    r = common.run_harness("app", [c["case"]], tag="c12r", nproc=1)[c["case"]["id"]]
    print(json.dumps(r)[:1500])
    return 0


if __name__ == "__main__":
    sys.exit(common.main_dispatch(PROP, run, replay))
