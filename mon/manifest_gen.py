"""Writes MANIFEST.json from the table below (kept in one place so it stays valid)."""
import json, os
V = os.path.dirname(os.path.dirname(os.path.abspath(__file__)))

CHECKS = {
 "C01": ("exploration", "reference-model runtime monitor (exact Fraction ledger vs reported rows)",
         "An independent exact-arithmetic ledger written from the statement is compared, row by row and within 1e-9, with every row the real library reports for thousands of generated histories (all five actions, 1-4 affiliates, foreign currencies, third-currency commissions, opening positions). Held-on-what-was-observed; no claim beyond the generated histories.",
         "Trusts the Python reference model (mon/ref.py), the render model as the observation point, and that magnitudes stay below 1e15 where Decimal resolution is below 1e-9.", "C01"),
 "C02": ("exploration", "reference-model runtime monitor + exhaustive offset family",
         "Every loss sale reported by the real library is re-judged by an exact model of the 30-day rule computed from the input rows only; a pair family covering every settlement offset -35..35, both same-day orders, each affiliate kind and buy/sell/split-then-buy is enumerated completely in both tiers, plus random multi-event windows and user-supplied values at chosen distances from the computed one.",
         "Trusts mon/ref.py's reading of the statement; 'held_end' is the all-affiliate balance after the sale plus window buys minus window sells after it.", "C02"),
 "C03": ("exploration", "online conservation-identity monitor over reported rows + per-sale adjustment accounting",
         "At every prefix of every generated multi-affiliate history that satisfies the stated precondition, the sum of reported gains is compared with cash flows computed exactly from the input rows plus the cost base the report says is still held; each denied loss's generated adjustments are accounted (in full, once, proportional, never to registered affiliates).",
         "Precondition is evaluated as stated (all affiliates of the security non-registered, no manual entries, no sale so far flagged [1] by the report).", "C03"),
 "C04": ("exploration", "row-invariant monitor + exact acceptance classifier + output-mode observation",
         "Row invariants are asserted on every reported row; an exact classifier of histories decides accept/reject and the check demands the tool agrees, that shown rows are a correct prefix, that the message names an offending transaction and that rejected securities are absent from totals.",
         "Whole-run load-stage errors (unparsable rows, Tx validation, the global/per-affiliate split guard) are outside the iff, as the statement says 'among inputs whose rows all parse'.", "C04"),
 "C06": ("exploration", "sum/rounding checker over reported tables in both precision modes + binary text/CSV outputs",
         "For every generated many-year, many-security history the yearly figures, table totals, aggregate and 'Since inception' are recomputed from the reported rows (exact, tolerance 1e-18), every default-precision cell is compared with the half-away-from-zero rounding of the same cell at full precision, and a sample is run through the real acb binary to compare the CSV directory and text output with the render model.",
         "Rounding oracle is applied to every dollar token; rejected securities' own totals are C04's business.", "C06"),
 "C07": ("exploration", "metamorphic runtime monitor (admissible re-layouts of the same rows)",
         "Each base input is re-laid-out K times (file partitions incl. empty pieces, column permutations, header case/padding, unrecognised and unnamed columns, padded values, admissible row permutations) and every reported table, footer, error list and aggregate must be string-identical to the base run; the stated processing order (settlement date, then position in the input) is checked on every base run, and the real binary is given 2-4 files whose command-line order is the reverse of their alphabetical order, cut inside a same-day cluster.",
         "Only layouts the statement calls admissible are generated; both runs stopping at the load stage counts as agreement.", "C07"),
 "C08": ("exploration", "metamorphic runtime monitor (A, B, A+B over disjoint securities, separate processes)",
         "A, B and an interleaving A+B (in a third of the pairs given as 2-3 files; in a third with equivalent affiliate spellings varied row by row) are run in different processes; each security's table and errors must be identical, errors must not name other securities, the combined aggregate must be the sum of the parts and in every run the aggregate must equal the securities' own totals.",
         "B contains deliberately impossible rows; whole-run load-stage errors are excluded.", "C08"),
 "C15": ("exploration", "metamorphic runtime monitor (insert split, restate later rows)",
         "Each split-free base history is compared with K variants carrying one or two inserted splits (forward, reverse, decimal; for all affiliates or one row per affiliate; on an event's day, between events, after the last) and exactly restated later rows: gains, SfL amounts and cost bases must agree within 1e-9, share counts and per-share costs must scale by the ratio, acceptance must be identical.",
         "Ratios are restricted to those whose restatement is exactly representable in decimal (prime factors 2 and 5).", "C15"),
 "C16": ("exploration", "metamorphic runtime monitor (-b SYM:n:c vs opening purchase) + malformed-spec monitor on the binary",
         "Every generated input is run with an opening position and, separately, with an equivalent purchase by the default affiliate 31-1000 days earlier; every cell of every later row, footers, errors and the aggregate must be identical, positions for absent securities must have no effect, and every malformed specification must make the binary exit non-zero with a message and no report (library entry point likewise).",
         "n = 0 is compared with no purchase at all (a Buy of 0 shares is not expressible).", "C16"),
 "C10": ("exploration", "round-trip runtime monitor through the real summary path (library and binary)",
         "For error-free generated histories and boundary-biased summary dates, in both modes, the summary produced by the real entry point and CSV writer is fed back with the rows settling after the date; the re-run must succeed and every later row's gain, superficial loss, share balances and cost base, the final holdings, and (annual mode) each past year's net gain per non-registered affiliate must agree with the full run within 1e-9.",
         "Opening positions are not combined with summaries (the statement does not say whether -b is passed again); zero-share copies of an all-affiliate split are not figures.", "C10"),
 "C17": ("exploration", "reference-model runtime monitor over the same run's rows + binary CSV files",
         "The per-day maxima, carry-forward, totals, yearly rows and ignored-transaction notes of the --total-costs tables are recomputed from the New ACB of the rows reported in the same run and compared exactly; a sample is run through the real binary and its total-costs.csv / yearly-max-costs.csv compared with the render model.",
         "Only runs without a rejected security are judged, as the statement says.", "C17"),
 "C05": ("exploration", "panic/exit/diagnostic runtime monitor with watchdog (catch_unwind + panic hook in-process; exit status, signal, stderr for the real binaries)",
         "Every front end is driven with hostile workloads (a slice of every other check's generator under random options, in-range extreme and tiny numerics, 25 kinds of byte-level CSV mutation plus truncation at every offset of a small file, malformed options and opening positions, hostile remote bodies, generated spreadsheets and confirmation texts); a panic hook records message and location, crashes and hangs are isolated by re-running the case alone, and every failing run must carry a diagnostic naming a file, row or security. Termination is judged by a watchdog plus isolated re-run, i.e. bounded progress, not an unbounded claim.",
         "PDF byte parsing by third-party crates and network errors are outside the statement; known findings are keyed on panic site + message + input class (known_findings.json).", "C05"),
 "C09": ("exploration", "repeated-run byte comparison over separate processes + hash-schedule canary",
         "Each command (tables, CSV directory, total costs, summary, annual summary, with and without full values and --verbose) is run N times in separate processes on inputs that weight the hash-ordered paths, and M times in-process; stdout bytes and the output directory tree must be identical. A canary shows how many distinct hash schedules were actually seen. Detection is probabilistic in the number of schedules sampled.",
         "The schedule space cannot be enumerated without replacing the hasher; stderr is not part of the statement.", "C09"),
 "C11": ("exploration", "round-trip runtime monitor through the real CSV writer and reader + independent parse of the written bytes",
         "Valid transaction lists are built through the public types, written with the real writer, read back with the real parser and conversion, and written again; the re-read transactions must equal the spec field by field (decimals by value), the second output must be byte-identical unless one of the two differences the statement allows occurred, and Python's csv module independently parses the first output and compares every cell with the spec.",
         "The harness echoes the Tx it built and the check refuses to judge if that differs from the spec (guards the oracle).", "C11"),
 "C12": ("exploration", "reference-model runtime monitor over look-up events + exhaustive gap x new-year family",
         "A publication-calendar model decides what each look-up must return; the real URL choice, JSON parser and RateLoader run behind a series-aware fake requester with the public 'today' override; every look-up uses a fresh loader, and the same look-ups are repeated inside one run in ascending date order. The family gap length 0-9 x look-up date Dec 25..Jan 10 x 4 year kinds is enumerated completely; application rows check the converted Amount/Commission cells and the three currency rules (explicit rate wins, CAD needs none and accepts only 1, other currencies need their own) on both the trade and the commission columns.",
         "Only valid positive observations of the series the statement names for that year count as published.", "C12"),
 "C13": ("exploration", "history monitor over recorded cache_read / cache_write / download events",
         "Histories of runs sharing one cache (in-memory, or a real CsvRatesCache directory) are executed with instrumented cache and remote wrappers; every look-up must equal the no-cache reference answer for that run's data, a year may be downloaded at most once per run, and a look-up whose needed dates are certainly in the cache (an earlier download happened after them) must cause no download unless forced.",
         "Remote data is monotone over a history (published rates never disappear) and contains everything published before each run's date, as the statement requires.", "C13"),
 "C14": ("fault_enumeration", "crash-state enumeration from a recorded syscall log (strace) + real kill injection to validate the model",
         "The real cache write is traced with strace; from the log (whatever the write procedure is) every process-kill state (syscall boundaries and byte cuts inside each write) and power-loss state (prefixes of un-fsynced data, non-durable truncation, rename durable before its data) is materialised, from four start states in rotation (an earlier run's cache content; the same plus debris of an earlier interrupted write; a cold directory; a cache file that is a symbolic link); a fresh RateLoader answers look-ups over each state and every returned rate must be the published one for the right day (wrong-day answers that the uncrashed cache gives too are not attributed to the crash). Real SIGKILLs injected at each write syscall must land in a modelled state. thorough enumerates every byte offset.",
         "Ordered-prefix persistence inside one file; one traced run is representative of the deterministic write procedure.", "C14"),
 "C20": ("exploration", "reference-model runtime monitor over generated statements + page-visit monitor on real lopdf-written PDFs",
         "Generated allocation tables in the documented layout are parsed by the real state machine and compared with the generating spec (each holding once, allocation, value, total, month). Real multi-page PDFs whose pages carry unique tokens are iterated through safe_page_chunks_with_remainder + optimized_iter in sequential and task-parallel mode under exhaustively enumerated single-group hints and random multi-group hints; every page must be yielded, no other page requested, each text must carry its own token; the pure chunk helper is also driven for page counts up to 400.",
         "PDF byte parsing is third-party; the allocation-table marker cannot be drawn with a Type1 font, so PDF-borne statements use tables without holdings.", "C20"),
 "C18": ("exploration", "reference-model runtime monitor over generated .xlsx exports (library path + real binary)",
         "Generated well-formed Questrade exports are written as real .xlsx files under four column layouts and converted by the real converter with option combinations; the printed CSV is compared with the spec (multiset of trade rows with exact values, ignored activities absent, signed USD.FX total = net USD cash flow, implied conversion rates, option filters), must be identical across layouts, and is fed to acb's own parser and conversion.",
         "Numeric cells are compared exactly against the shortest decimal that round-trips the stored double, as a spreadsheet displays it.", "C18"),
 "C19": ("exploration", "reference-model runtime monitor over generated confirmation texts (exhaustive subset accounting as oracle)",
         "Confirmation texts generated from the checked-in samples' layouts are extracted by the real extractor under three file orders; an exhaustive subset search decides whether the output is a valid exactly-once accounting (one purchase per benefit, every confirmation consumed by one sell-to-cover within five days of its benefit or emitted once as a manual trade), whether an unmatchable set is reported rather than guessed, and order by settlement date; the output is fed to acb and a sample runs through the real binary.",
         "Texts follow the supported layouts (RSU, ESPP, option exercise, pre- and post-2023 trade confirmations incl. purchases and confirmations of identical content).", "C19"),
}
PENDING = {}

def main():
    props = [json.loads(l) for l in open(os.path.join(V, "properties.jsonl"))]
    checks = []
    na = []
    for p in props:
        pid = p["id"]
        if pid in CHECKS and os.environ.get("MANIFEST_ONLY", pid) :
            cat, tech, text, note, ref = CHECKS[pid]
            checks.append({
                "property_id": pid,
                "quick_cmd": "./check %s quick" % pid,
                "thorough_cmd": "./check %s thorough" % pid,
                "evidence_file": "/verif/evidence/%s.json" % pid,
                "replay_cmd_template": "./check %s --replay {path}" % pid,
                "engine": "acbmon",
                "level_claimed": {"category": cat, "text": text, "design_ref": "DESIGN.md section " + ref},
                "level_note": note,
                "technique": tech,
            })
        else:
            na.append({"property_id": pid, "reason": PENDING.get(pid, "check not built yet in this round; see DESIGN.md for the planned monitor")})
    m = {
        "version": 1,
        "setup_cmd": "./setup.sh",
        "hooks": {
            "guard": "verif_hooks",
            "enable": "none needed: every observation point is a public API boundary, stdout/stderr/files, or a recorded syscall log; the cargo feature name verif_hooks is reserved and unused",
            "baseline_off_cmd": "cd /repo && cargo test --workspace --no-fail-fast --offline",
            "source_commits": [],
            "add_only": True,
        },
        "engines": [
            {"name": "acbmon", "path": "/verif/harness", "serves_properties": sorted(CHECKS.keys()),
             "kind_free_text": "Rust workload driver linked against the real acb library (path dependency on /repo, rebuilt on every check); records what the public entry points report as JSON events. Oracles are Python (fractions.Fraction) under /verif/mon."},
        ],
        "checks": checks,
        "not_applicable": na,
        "notes": "Runtime monitoring only: reference-model, invariant, metamorphic and history monitors over executions of the real code. See DESIGN.md.",
    }
    with open(os.path.join(V, "MANIFEST.json"), "w") as f:
        json.dump(m, f, indent=1)
        f.write("\n")

if __name__ == "__main__":
    main()
