"""Metamorphic monitors: C07 (re-layout), C08 (independent securities), C15 (split neutrality),
C16 (--symbol-base equals an opening purchase). Two or more real executions whose observable
results must agree."""
import datetime
import json
import multiprocessing
import os
import sys
from fractions import Fraction

sys.path.insert(0, os.path.dirname(os.path.abspath(__file__)))
import common
import gen
import ref
from common import Verdict
from ledger import history_to_case, mkrow, ALL_AFS

SUM_TOL = Fraction(1, 10 ** 18)


def table_sig(t, drop_cols=()):
    rows = [[c for i, c in enumerate(r) if i not in drop_cols] for r in t["rows"]]
    return {"rows": rows, "footer": t["footer"], "notes": t["notes"], "errors": t["errors"]}


def first_diff(a, b):
    if a["errors"] != b["errors"]:
        return {"errors": [a["errors"], b["errors"]]}
    if len(a["rows"]) != len(b["rows"]):
        return {"row_count": [len(a["rows"]), len(b["rows"])]}
    for i, (x, y) in enumerate(zip(a["rows"], b["rows"])):
        if x != y:
            for ci, (p, q) in enumerate(zip(x, y)):
                if p != q:
                    return {"row": i, "col": ci, "a": p, "b": q}
    if a["footer"] != b["footer"]:
        return {"footer": [a["footer"], b["footer"]]}
    if a["notes"] != b["notes"]:
        return {"notes": [a["notes"], b["notes"]]}
    return None


# ---------------------------------------------------------------------------------------
# C07

def c07_profile(rng):
    return gen.Knobs(affiliates=rng.choice(ALL_AFS), n_secs=(2, 4), n_rows=(8, 50), opening=0.15,
                     offsets=[0, 0, 0, 0, 1, 1, 2, 5, 10, 29, 30, 31, 60], p_invalid=rng.choice([0, 0, 0.02]),
                     td_lag=[0, 0, 1, 2, 2, 3], shuffle_file_order=0.0, p_comm=0.7, p_comm_cur=0.2,
                     weights={"Buy": 5, "Sell": 5, "RoC": 1, "SfLA": 0.3, "Split": 0.8})


def header_style(rng):
    k = rng.choice(["same", "upper", "title", "pad", "mixed", "pad_unicode"])

    def f(c):
        if k == "upper":
            c = c.upper()
        elif k == "title":
            c = c.title()
        elif k == "mixed":
            c = "".join(ch.upper() if rng.random() < 0.5 else ch for ch in c)
        elif k == "pad":
            c = " " * rng.randint(0, 3) + c + " " * rng.randint(0, 3)
        elif k == "pad_unicode":
            # padding as spreadsheets and web pages produce it: no-break space, ideographic space, em space, tab
            ws = ["\u00a0", "\u3000", "\u2003", "\t", " "]
            c = "".join(rng.choice(ws) for _ in range(rng.randint(0, 2))) + c + "".join(rng.choice(ws) for _ in range(rng.randint(0, 2)))
        return c
    return f


JUNK = ["", "x", "12.5", "n/a", "hello, world", 'say "hi"', "2020-01-01", "-1", "Buy", "ünï", "#A-1", "# note", ";x", "//c", "%", "'q", "=1+1"]
MEMOS = ["", "", "", "note", "#3 trim", "# lot 7", "; semi", "-dash", "a, b", "ünï", "//x", "\"q\"", "filed in D:\\tax\\2020\\, box 3\\", "back\\slash"]


def relayout_files(rng, rows):
    """One admissible re-layout: returns list of [name, csv_text]."""
    rows = gen.admissible_shuffle(rng, [dict(r) for r in rows]) if rng.random() < 0.7 else [dict(r) for r in rows]
    # partition into 1-5 files in order (a piece may be empty)
    nfiles = rng.randint(1, 5)
    cuts = sorted(rng.randint(0, len(rows)) for _ in range(nfiles - 1))
    pieces = []
    prev = 0
    for c in cuts + [len(rows)]:
        pieces.append(rows[prev:c])
        prev = c
    files = []
    for fi, piece in enumerate(pieces):
        base_cols = gen.used_cols(rows) if rng.random() < 0.5 else list(gen.COLS)
        # every column that any row of this piece uses must be present
        need = gen.used_cols(piece) if piece else ["security", "trade date", "settlement date", "action"]
        cols = [c for c in gen.COLS if c in set(base_cols) | set(need)]
        rng.shuffle(cols)
        n_extra = rng.choice([0, 0, 1, 2, 3, 6, 10])
        extras = ["x-col-%d" % i for i in range(n_extra)] + [""] * rng.choice([0, 0, 0, 1, 2])    # spacer columns without a name
        if rng.random() < 0.25:
            # unrecognised columns whose names extend recognised ones
            extras += rng.sample(["Commission (est.)", "Shares (lots)", "currency (orig)", "memo 2", "security id", "trade date (local)",
                                  "amount/share (gross)", "exchange rate (bank)", "affiliate (old)"], rng.randint(1, 3))
        layout = cols + extras
        rng.shuffle(layout)
        hs = header_style(rng)
        key_for = dict(zip(gen.COLS, gen.KEYS))
        lines = [",".join(gen.csv_escape(hs(c)) for c in layout)]
        for r in piece:
            vals = []
            for c in layout:
                if c in key_for:
                    v = str(r.get(key_for[c], "") or "")
                    if v and rng.random() < 0.15:
                        v = " " * rng.randint(1, 2) + v + " " * rng.randint(0, 2)
                else:
                    v = rng.choice(JUNK)
                vals.append(gen.csv_escape(v))
            lines.append(",".join(vals))
        files.append(["part%d.csv" % fi, "\n".join(lines) + "\n"])
    return files


def order_matters(rows):
    seen = {}
    for r in rows:
        k = (r["sec"], r["sd"])
        seen.setdefault(k, set()).add(r["action"])
    return any(len(v) >= 2 for v in seen.values())


def order_check(h, res):
    """'Transactions are processed per security in settlement-date order, ties broken by position in the concatenated
    input': the Buy/Sell/RoC rows of each table follow that order (a rejected security shows a prefix)."""
    if not res.get("ok"):
        return None
    by = {}
    for idx, r in enumerate(h["rows"]):
        if r["action"] in ("Buy", "Sell", "RoC"):
            by.setdefault(r["sec"], []).append((r["sd"], idx, r))
    for sec, t in res["tables"].items():
        col = {x: i for i, x in enumerate(t["header"])}
        want = [(r["td"], r["sd"], r["action"], Fraction(r["shares"]) if r["action"] != "RoC" else None) for _, _, r in sorted(by.get(sec, []), key=lambda x: (x[0], x[1]))]
        got = []
        for r in t["rows"]:
            tx = r[col["TX"]]
            if tx not in ("Buy", "Sell", "RoC"):
                continue
            try:
                sh = Fraction(r[col["Shares"]]) if tx != "RoC" else None
            except (ValueError, ZeroDivisionError):
                sh = None
            got.append((r[col["Trade Date"]], r[col["Settl. Date"]], tx, sh))
        if t["errors"]:
            want = want[:len(got)]
        if got != want:
            k = next((i for i, (a, b) in enumerate(zip(got, want)) if a != b), min(len(got), len(want)))
            return {"what": "rows are not processed in (settlement date, input position) order", "sec": sec, "index": k,
                    "tool": [str(x) for x in got[k]] if k < len(got) else None, "expected": [str(x) for x in want[k]] if k < len(want) else None}
    return None


def c07_worker(shard):
    K = shard["K"]
    cases = []
    meta = []
    for cid, name, h in shard["pop"]:
        base = history_to_case(cid + "#base", h)
        cases.append(base)
        lay = []
        for k in range(K):
            rng = common.rng_for(cid, "layout", k)
            files = relayout_files(rng, h["rows"])
            c = {"id": "%s#L%d" % (cid, k), "files": files, "init": gen.init_args(h.get("init", {})),
                 "full": True, "want": ["model"]}
            cases.append(c)
            lay.append(c)
        meta.append((cid, name, h, lay))
    res = common.run_harness("app", cases, tag="c07", nproc=1)
    out = []
    for cid, name, h, lay in meta:
        rb = res.get(cid + "#base", {})
        j = {"cid": cid, "name": name, "unjudged": False, "findings": [], "n_layouts": 0,
             "nontrivial": order_matters(h["rows"]) and len({r["sec"] for r in h["rows"]}) >= 2}
        if "panic" in rb or "crash" in rb or "hang" in rb:
            j["unjudged"] = True
            out.append(j)
            continue
        try:
            od = order_check(h, rb)
        except (KeyError, ValueError) as e:
            od = None
        if od is not None:
            j["findings"].append({"what": od["what"], "diff": od, "layout_files": []})
            j["history"] = h
        for c in lay:
            if j["findings"]:
                break
            rl = res.get(c["id"], {})
            j["n_layouts"] += 1
            d = compare_runs(rb, rl)
            if d is not None:
                j["findings"].append({"what": "re-layout changed the result", "diff": d, "layout_files": c["files"]})
                j["history"] = h
                break
        if not j["findings"] and len(out) < 1:
            j["sample"] = {"base_csv": gen.rows_to_csv(h["rows"], gen.used_cols(h["rows"]))[:600],
                           "relayout_example": [f[1][:400] for f in lay[0]["files"]] if lay else []}
        out.append(j)
    return out


def compare_runs(ra, rb):
    """Both app results; returns a description of the first difference or None."""
    if ra.get("ok") != rb.get("ok"):
        return {"ok": [ra.get("ok"), rb.get("ok")], "err": [ra.get("err"), rb.get("err")],
                "panic": [ra.get("panic"), rb.get("panic")]}
    if not ra.get("ok"):
        return None   # both stopped at load stage (message may name a different file/row)
    ta, tb = ra["tables"], rb["tables"]
    if set(ta) != set(tb):
        return {"securities": [sorted(ta), sorted(tb)]}
    for sec in sorted(ta):
        d = first_diff(table_sig(ta[sec]), table_sig(tb[sec]))
        if d:
            d["sec"] = sec
            return d
    d = first_diff(table_sig(ra["agg"]), table_sig(rb["agg"]))
    if d:
        d["sec"] = "aggregate"
        return d
    return None


def run_c07(tier):
    seed = common.seed()
    common.build(bins=True)
    V = Verdict("C07", tier)
    V.rule = ("base histories (2-4 securities, same-day clusters) x K admissible re-layouts each: partition into 1-5 files in order (pieces may be "
              "empty), per-file column permutation, header case/padding, 0-10 unrecognised columns with junk and 0-2 columns without a header name, padded values, row permutation keeping "
              "the order of rows with the same security and settlement date; plus the stated processing order checked on every base run, and the real binary given "
              "2-4 files whose command-line order is the reverse of their alphabetical order; non-trivial = base has a same-day same-security cluster of different "
              "actions and >=2 securities; K=6 quick, 30 thorough")
    n = {"quick": 500, "thorough": 8000}[tier]
    K = {"quick": 6, "thorough": 30}[tier]
    pop = []
    for i in range(n):
        rng = common.rng_for(seed, "C07", i)
        prof = c07_profile(rng)
        big = i % 12 == 5
        if big:
            prof.n_rows = (150, 260)       # inputs well beyond one 8 KiB read buffer, with multi-byte text on every row
        hh = gen.HistoryGen(rng, prof).gen()
        if big:
            for r in hh["rows"]:
                r["memo"] = rng.choice(["dépôt nº %d" % rng.randint(1, 99), "日本株 ✓", "Renée — réinvesti", "ünï cödé", "€ £ ¥", "naïve café"])
        elif i % 2 == 0:
            for r in hh["rows"]:
                r["memo"] = rng.choice(MEMOS)
        pop.append((common.case_id(seed, "C07", i), "base #%d" % i, hh))
    nsh = common.NPROC * 4
    shards = [{"K": K, "pop": s} for s in (pop[i::nsh] for i in range(nsh)) if s]
    with multiprocessing.Pool(common.NPROC) as pool:
        parts = pool.map(c07_worker, shards)
    nl = 0
    for part in parts:
        for j in part:
            V.count()
            if j["unjudged"]:
                V.unjudged += 1
                continue
            nl += j["n_layouts"]
            if j["nontrivial"]:
                V.nontriv(j["cid"])
            if "sample" in j:
                V.sample(j["sample"], cap=2)
            for f in j["findings"][:1]:
                V.violation("%s [%s]" % (json.dumps(f["diff"])[:400], j["name"]),
                            {"kind": "relayout", "prop": "C07", "history": j["history"], "layout_files": f["layout_files"]},
                            {"what": f["what"]})
    V.extra["layout_pairs_compared"] = nl
    c07_cli(V, pop, tier)
    return V.finish(floor_eval=100, floor_nontrivial=10, floors={"layout_pairs_compared": 1000, "binary_layout_pairs": 4})


def c07_cli(V, pop, tier):
    """'several CSV files given in order', through the real binary: the files are named so that the order given on the
    command line is the reverse of their alphabetical order, and the result must equal the single-file run."""
    wd = common.workdir("c07cli")
    try:
        k = 8 if tier == "quick" else 60
        done = 0
        for cid, name, h in pop:
            if done >= k:
                break
            if not order_matters(h["rows"]) or len(h["rows"]) < 6:
                continue
            rng = common.rng_for(cid, "cli")
            rows = h["rows"]
            # one cut falls between two rows of one security that settle on the same day and differ in kind, so that the
            # order of the files decides the order of those two rows
            pairs = [(i, j) for i in range(len(rows)) for j in range(i + 1, len(rows))
                     if rows[i]["sec"] == rows[j]["sec"] and rows[i]["sd"] == rows[j]["sd"] and rows[i]["action"] != rows[j]["action"]]
            if not pairs:
                continue
            i_, j_ = rng.choice(pairs)
            cuts = sorted({rng.randint(i_ + 1, j_)} | set(rng.sample(range(1, len(rows)), min(len(rows) - 1, rng.choice([0, 1, 2])))))
            pieces = [rows[i:j] for i, j in zip([0] + cuts, cuts + [len(rows)])]
            cols = gen.used_cols(rows)
            one = os.path.join(wd, "%s-all.csv" % cid)
            with open(one, "w") as f:
                f.write(gen.rows_to_csv(rows, cols))
            paths = []
            for i, pc in enumerate(pieces):
                p = os.path.join(wd, "%s-%s_part.csv" % (cid, "zyxwv"[i]))      # given order = reverse alphabetical order
                with open(p, "w", encoding="utf-8") as f:
                    # files saved by spreadsheet programs start with a byte-order mark; column order varies per file
                    pcols = list(cols)
                    if rng.random() < 0.5:
                        rng.shuffle(pcols)
                    f.write(("\ufeff" if rng.random() < 0.6 else "") + gen.rows_to_csv(pc, pcols))
                paths.append(p)
            init = []
            for sp in gen.init_args(h.get("init", {})):
                init += ["-b", sp]
            ra = common.run_cli("acb", [one, "--print-full-values"] + init, home=wd)
            rb = common.run_cli("acb", paths + ["--print-full-values"] + init, home=wd)
            done += 1
            V.bump("binary_layout_pairs")
            if ra["rc"] != rb["rc"] or ra["out"] != rb["out"]:
                V.violation("acb on %d files given in order differs from acb on the concatenated file [%s]" % (len(paths), name),
                            {"kind": "cli_files", "prop": "C07", "history": h, "pieces": [len(x) for x in pieces]},
                            {"what": "binary: files given in order"})
    finally:
        common.cleanup(wd)


def replay_c07(rec):
    c = rec["case"]
    h = c["history"]
    common.build()
    if c.get("kind") == "cli_files" or not c.get("layout_files"):
        r = common.run_harness("app", [history_to_case("base", h)], tag="c07r", nproc=1)["base"]
        d = order_check(h, r)
        print("replay (order oracle on the single-file run):", json.dumps(d)[:600])
        if d:
            print("VIOLATION property=C07 replay=%s" % sys.argv[2])
            return 1
        print("replay: the file-order finding needs the binary; re-run ./check C07 quick")
        return 0
    cases = [history_to_case("base", h),
             {"id": "lay", "files": c["layout_files"], "init": gen.init_args(h.get("init", {})), "full": True, "want": ["model"]}]
    res = common.run_harness("app", cases, tag="c07r", nproc=1)
    d = compare_runs(res["base"], res["lay"])
    if d:
        print("replay finding:", json.dumps(d)[:1000])
        print("VIOLATION property=C07 replay=%s" % sys.argv[2])
        return 1
    print("replay: no finding reproduced")
    return 0


# ---------------------------------------------------------------------------------------
# C08

SECS_A = ["AAA", "ABX", "ACME"]
SECS_B = ["BBB", "BZZ", "BOOM"]


def rename_secs(h, names):
    secs = sorted({r["sec"] for r in h["rows"]} | set(h.get("init", {})))
    m = {s: names[i % len(names)] + ("" if i < len(names) else str(i)) for i, s in enumerate(secs)}
    rows = []
    for r in h["rows"]:
        r2 = dict(r)
        r2["sec"] = m[r["sec"]]
        rows.append(r2)
    init = {m[s]: v for s, v in h.get("init", {}).items()}
    return {"rows": rows, "init": init, "features": h.get("features", [])}


AF_SPELLINGS = {"default": ["", "Default", "default", "DEFAULT", " Default "], "default (R)": ["(R)", "Default (R)", "default (r)", "(r)"],
                "spouse": ["Spouse", "spouse", "SPOUSE"], "spouse (R)": ["Spouse (R)", "spouse (r)", "Spouse  (R)"],
                "kid": ["Kid", "kid", "KID"], "kid (R)": ["Kid (R)", "kid (r)"]}


def respell_affiliates(rng, rows, lower=None):
    """The same affiliates written in other, equivalent spellings (case, padding, blank for the default one): row by row,
    or one spelling per affiliate for the whole input (lower=True: all lower case)."""
    per_input = {}
    consistent = lower is not None or rng.random() < 0.5
    for r in rows:
        if r["action"] == "Split" and not (r.get("af") or "").strip():
            # blank on a split means "all affiliates", not the default one; the reserved name says the same
            if rng.random() < 0.15:
                r["af"] = rng.choice(["__global__", "__GLOBAL__", "__Global__"])
            continue
        k = ref.af_norm(r.get("af"))
        if k not in AF_SPELLINGS:
            continue
        if consistent:
            if k not in per_input:
                opts = [x for x in AF_SPELLINGS[k] if x.strip()]
                per_input[k] = next((x for x in opts if x == x.lower()), opts[0]) if lower else (opts[0] if lower is False else rng.choice(opts))
            r["af"] = per_input[k]
        elif rng.random() < 0.6:
            r["af"] = rng.choice(AF_SPELLINGS[k])
            if r["action"] == "Split" and not r["af"].strip():
                r["af"] = "Default"


def table_sig_afnorm(t):
    """table_sig with the Affiliate column reduced to the affiliate's identity and messages lower-cased: the spelling
    shown for an affiliate is the first one met in the whole input, which is not a figure of the security."""
    sig = table_sig(t)
    ci = t["header"].index("Affiliate") if "Affiliate" in t["header"] else None
    if ci is not None:
        sig["rows"] = [[ref.af_norm(c) if i == ci else c for i, c in enumerate(r)] for r in sig["rows"]]
    sig["errors"] = [e.lower() for e in sig["errors"]]
    sig["notes"] = [e.lower() for e in sig["notes"]]
    return sig


def c08_population(seed, n):
    pop = []
    for i in range(n):
        rng = common.rng_for(seed, "C08", i)
        afs = rng.choice(ALL_AFS)
        ka = gen.Knobs(affiliates=afs, n_secs=(1, 2), n_rows=(4, 30), opening=0.2,
                       offsets=[0, 0, 1, 2, 5, 10, 29, 30, 31, 60, 200])
        kb = gen.Knobs(affiliates=afs, n_secs=(1, 2), n_rows=(3, 25), opening=0.2,
                       p_invalid=rng.choice([0.0, 0.05, 0.15, 0.3]),
                       offsets=[0, 0, 1, 2, 5, 10, 29, 30, 31, 60, 200],
                       start_year=ka.start_year)
        a = rename_secs(gen.HistoryGen(rng, ka).gen(), SECS_A)
        b = rename_secs(gen.HistoryGen(rng, kb).gen(), SECS_B)
        if rng.random() < 0.12:
            # a security whose gains and losses cancel exactly over two years (total 0, yearly figures not 0)
            y0 = rng.randint(2012, 2022)
            g = Fraction(rng.randint(1, 160), 4)
            z = [mkrow("BZERO", "%d-02-03" % y0, "Buy", "", shares="10", aps="10", cur="CAD"),
                 mkrow("BZERO", "%d-06-03" % y0, "Sell", "", shares="5", aps=gen.dec_str(10 + g / 5, 6), cur="CAD"),
                 mkrow("BZERO", "%d-06-03" % (y0 + 1), "Sell", "", shares="5", aps=gen.dec_str(10 - g / 5, 6), cur="CAD")]
            b = {"rows": list(b["rows"]) + z, "init": b["init"], "features": b.get("features", [])}
        mode = rng.random()
        if mode < 0.25:
            respell_affiliates(rng, a["rows"])
            respell_affiliates(rng, b["rows"])
        elif mode < 0.4:
            # one input writes its affiliates in lower case throughout, the other capitalised throughout
            first_lower = rng.random() < 0.5
            respell_affiliates(rng, a["rows"], lower=first_lower)
            respell_affiliates(rng, b["rows"], lower=not first_lower)
        # random interleaving preserving each side's own order
        ra, rb = list(a["rows"]), list(b["rows"])
        u = []
        while ra or rb:
            if ra and (not rb or rng.random() < len(ra) / (len(ra) + len(rb))):
                u.append(ra.pop(0))
            else:
                u.append(rb.pop(0))
        ab = {"rows": u, "init": dict(list(a["init"].items()) + list(b["init"].items())), "features": []}
        if len(u) >= 4 and rng.random() < 0.35:
            # the rows arrive in several files; each part alone gets its own rows of each file, in the same files
            cuts = sorted(rng.sample(range(1, len(u)), rng.choice([1, 1, 2])))
            chunks = [u[i:j] for i, j in zip([0] + cuts, cuts + [len(u)])]
            ida, idb = {id(r) for r in a["rows"]}, {id(r) for r in b["rows"]}
            ab["chunks"] = chunks
            a = dict(a, chunks=[[r for r in ch if id(r) in ida] for ch in chunks])
            b = dict(b, chunks=[[r for r in ch if id(r) in idb] for ch in chunks])
        pop.append((common.case_id(seed, "C08", i), "pair #%d" % i, a, b, ab))
    return pop


def agg_map(res):
    out = {}
    for r in res["agg"]["rows"]:
        out[r[0]] = ref.money(r[1])
    return out


def c08_judge(a, b, ab, ra, rb, rab):
    f = []
    info = {"b_fails": False, "shared": False}
    for r in (ra, rb, rab):
        if "panic" in r or "crash" in r or "hang" in r:
            return None, info
    if not (ra.get("ok") and rb.get("ok") and rab.get("ok")):
        # a load-stage error in B legitimately stops the combined run ("rows do not parse")
        if ra.get("ok") and rb.get("ok") and not rab.get("ok"):
            f.append({"what": "combined run fails although each part runs", "err": rab.get("err")})
            return f, info
        return None, info
    for part, rp in ((a, ra), (b, rb)):
        for sec, t in rp["tables"].items():
            t2 = rab["tables"].get(sec)
            if t2 is None:
                f.append({"what": "security missing from the combined run", "sec": sec})
                return f, info
            d = first_diff(table_sig_afnorm(t), table_sig_afnorm(t2))
            if d:
                d["sec"] = sec
                f.append({"what": "a security's table changed when other securities were added", "diff": d})
                return f, info
            if t["errors"]:
                info["b_fails"] = True
            for e in t2["errors"]:
                others = [s for s in rab["tables"] if s != sec]
                if any((" " + o + " ") in (" " + e.replace(",", " ").replace(":", " ") + " ") for o in others):
                    f.append({"what": "an error message names another security", "sec": sec, "msg": e})
                    return f, info
    extra = set(rab["tables"]) - set(ra["tables"]) - set(rb["tables"])
    if extra:
        f.append({"what": "combined run reports securities that neither part has", "secs": sorted(extra)})
        return f, info
    # the aggregate changes by exactly the other securities' own totals: in every run it is
    # the sum of the totals shown under the securities' tables
    for rp, nm in ((ra, "A"), (rb, "B"), (rab, "A+B")):
        own = {}
        for sec, t in rp["tables"].items():
            labels = t["footer"][8].split("\n")
            vals = t["footer"][9].split("\n")
            for k, v in zip(labels, vals):
                k = "Since inception" if k == "Total" else k
                own[k] = own.get(k, Fraction(0)) + ref.money(v)
        g = agg_map(rp)
        for k in set(own) | set(g):
            if abs((own.get(k) or Fraction(0)) - (g.get(k) or Fraction(0))) > SUM_TOL:
                f.append({"what": "aggregate gains are not the sum of the securities' own totals", "run": nm, "key": k,
                          "aggregate": str(g.get(k)), "own_totals": str(own.get(k))})
                return f, info
    ga, gb, gab = agg_map(ra), agg_map(rb), agg_map(rab)
    for k in set(ga) | set(gb) | set(gab):
        want = (ga.get(k) or Fraction(0)) + (gb.get(k) or Fraction(0))
        got = gab.get(k)
        if got is None or abs(got - want) > SUM_TOL:
            f.append({"what": "aggregate gains of the combined run are not the sum of the parts", "key": k,
                      "a": str(ga.get(k)), "b": str(gb.get(k)), "ab": str(got)})
            return f, info
    sda = {(r["sd"], ref.af_norm(r.get("af"))) for r in a["rows"]}
    sdb = {(r["sd"], ref.af_norm(r.get("af"))) for r in b["rows"]}
    info["shared"] = bool(sda & sdb)
    return f, info


def run_c08(tier):
    seed = common.seed()
    common.build(bins=True)
    V = Verdict("C08", tier)
    V.rule = ("pairs (A, B) of generated inputs over disjoint security sets sharing affiliates and a date range, B with deliberately impossible rows at "
              "rate 0-30%, plus a random interleaving A+B (in a third of the pairs given as 2-3 files, each part alone keeping its rows of each file); A, B and A+B are run in different harness processes; non-trivial = B contains a bookkeeping "
              "failure, or A and B share an affiliate and a settlement date")
    n = {"quick": 1500, "thorough": 60000}[tier]
    pop = c08_population(seed, n)
    ca = [history_to_case(cid + "A", a) for cid, _, a, b, ab in pop]
    cb = [history_to_case(cid + "B", b) for cid, _, a, b, ab in pop]
    cab = [history_to_case(cid + "U", ab) for cid, _, a, b, ab in pop]
    third = max(2, common.NPROC // 3)
    with multiprocessing.pool.ThreadPool(3) as tp:
        r1, r2, r3 = tp.map(lambda x: common.run_harness("app", x[0], tag=x[1], nproc=third),
                            [(ca, "c08a"), (cb, "c08b"), (cab, "c08u")])
    for cid, name, a, b, ab in pop:
        V.count()
        f, info = c08_judge(a, b, ab, r1.get(cid + "A", {}), r2.get(cid + "B", {}), r3.get(cid + "U", {}))
        if f is None:
            V.unjudged += 1
            continue
        V.bump("securities_compared", len(r1[cid + "A"]["tables"]) + len(r2[cid + "B"]["tables"]))
        if info["b_fails"]:
            V.bump("pairs_with_failing_security")
        if info["b_fails"] or info["shared"]:
            V.nontriv(cid)
        if not f:
            V.sample({"A": gen.rows_to_csv(a["rows"], gen.used_cols(a["rows"]))[:500],
                      "B": gen.rows_to_csv(b["rows"], gen.used_cols(b["rows"]))[:500]}, cap=2)
        for x in f[:1]:
            V.violation("%s [%s]" % (json.dumps(x)[:400], name),
                        {"kind": "pair", "prop": "C08", "a": a, "b": b, "ab": ab}, {"what": x["what"]})
    c08_cli(V, pop, tier)
    return V.finish(floor_eval=100, floor_nontrivial=10, floors={"pairs_with_failing_security": 50, "binary_pairs": 3})


def c08_cli(V, pop, tier):
    """The same independence through the real binary: per-security CSV files written by `acb -d` for A alone and for
    A+B must be byte-identical (pairs without respelled affiliates, whose display spelling is first-come)."""
    wd = common.workdir("c08cli")
    try:
        k = 6 if tier == "quick" else 60
        done = 0
        for cid, name, a, b, ab in pop:
            if done >= k:
                break
            if a.get("chunks") or any((r.get("af") or "") not in ("", "Default", "Spouse", "Kid", "(R)", "Default (R)", "Spouse (R)", "Kid (R)") for r in ab["rows"]):
                continue
            outs = {}
            ok = True
            for tag, hh in (("a", a), ("ab", ab)):
                inp = os.path.join(wd, "%s-%s.csv" % (cid, tag))
                with open(inp, "w") as f:
                    f.write(gen.rows_to_csv(hh["rows"], gen.used_cols(hh["rows"])))
                od = os.path.join(wd, "%s-%s-out" % (cid, tag))
                args = [inp, "-d", od, "--print-full-values"]
                for sp in gen.init_args(hh.get("init", {})):
                    args += ["-b", sp]
                r = common.run_cli("acb", args, home=wd)
                if r["rc"] != 0 and not os.path.isdir(od):
                    ok = False
                    break
                outs[tag] = od
            if not ok:
                continue       # a load-stage error stops the whole run (outside the statement)
            done += 1
            V.bump("binary_pairs")
            for sec in sorted({r["sec"] for r in a["rows"]}):
                pa, pb = os.path.join(outs["a"], sec + ".csv"), os.path.join(outs["ab"], sec + ".csv")
                ca = open(pa, "rb").read() if os.path.exists(pa) else None
                cb = open(pb, "rb").read() if os.path.exists(pb) else None
                if ca != cb:
                    V.violation("acb -d: %s.csv differs between the run on A alone and the run on A+B [%s]" % (sec, name),
                                {"kind": "pair", "prop": "C08", "a": a, "b": b, "ab": ab}, {"what": "binary: a security's file changed when other securities were added"})
                    break
    finally:
        common.cleanup(wd)


def replay_c08(rec):
    c = rec["case"]
    common.build()
    r1 = common.run_harness("app", [history_to_case("A", c["a"])], tag="c08ra", nproc=1)["A"]
    r2 = common.run_harness("app", [history_to_case("B", c["b"])], tag="c08rb", nproc=1)["B"]
    r3 = common.run_harness("app", [history_to_case("U", c["ab"])], tag="c08ru", nproc=1)["U"]
    f, info = c08_judge(c["a"], c["b"], c["ab"], r1, r2, r3)
    if f:
        print("replay finding:", json.dumps(f)[:1000])
        print("VIOLATION property=C08 replay=%s" % sys.argv[2])
        return 1
    print("replay: no finding reproduced" if f is not None else "replay: could not be judged")
    return 0 if f is not None else 2



# ---------------------------------------------------------------------------------------
# C15: inserting a split and restating later rows changes no gain, SfL amount or cost base

FACTORS = [("2-for-1", Fraction(2)), ("4-for-1", Fraction(4)), ("5-for-1", Fraction(5)), ("10-for-1", Fraction(10)),
           ("1.0-for-2.0", Fraction(1, 2)), ("1.0-for-4.0", Fraction(1, 4)), ("1.0-for-5.0", Fraction(1, 5)),
           ("5-for-2", Fraction(5, 2)), ("2.0-for-5.0", Fraction(2, 5)), ("1.0-for-10.0", Fraction(1, 10)),
           ("2.5-for-1", Fraction(5, 2)), ("0.5-for-1", Fraction(1, 2))]


def c15_profile(rng):
    return gen.Knobs(affiliates=rng.choice(ALL_AFS), n_secs=(1, 2), n_rows=(4, 30), opening=0.15,
                     offsets=[0, 0, 1, 2, 5, 10, 14, 20, 29, 30, 31, 45, 90], p_loss_bias=0.7,
                     max_dp_shares=2, shuffle_file_order=0.0, p_invalid=rng.choice([0, 0, 0.03]),
                     weights={"Buy": 5, "Sell": 5, "RoC": 1, "SfLA": 0.2, "Split": 0})


def restate(row, f):
    r = dict(row)
    if r["action"] in ("Buy", "Sell", "SfLA"):
        r["shares"] = gen.dec_str(Fraction(r["shares"]) * f, 20)
        r["aps"] = gen.dec_str(Fraction(r["aps"]) / f, 20)
    elif r["action"] == "RoC":
        r["aps"] = gen.dec_str(Fraction(r["aps"]) / f, 20)
    return r


def c15_variant(rng, h):
    """-> (h2, info) with one or two inserted splits in one security (each restating everything after it)."""
    rows = sorted(h["rows"], key=lambda r: r["sd"])    # stable: file order within a day
    secs = sorted({r["sec"] for r in rows})
    sec = rng.choice(secs)
    idxs = [i for i, r in enumerate(rows) if r["sec"] == sec]

    def pick():
        p = rng.choice(idxs + [idxs[-1] + 1]) if rng.random() < 0.9 else idxs[0]
        name, f = rng.choice(FACTORS)
        if p < len(rows):
            sd = rows[p]["sd"]
            if rng.random() < 0.4 and p > 0:
                # a day strictly between two events, when there is one
                d0 = datetime.date.fromisoformat(rows[p - 1]["sd"])
                d1 = datetime.date.fromisoformat(rows[p]["sd"])
                if (d1 - d0).days >= 2:
                    sd = (d0 + datetime.timedelta(days=rng.randint(1, (d1 - d0).days - 1))).isoformat()
        else:
            sd = (datetime.date.fromisoformat(rows[-1]["sd"]) + datetime.timedelta(days=rng.choice([1, 10, 29, 30, 31, 40]))).isoformat()
        return {"p": p, "sd": sd, "name": name, "f": f}
    splits = [pick()]
    if rng.random() < 0.35:
        s2 = pick()
        # a second split on another day (two splits of one security within a day of each other are refused at load
        # when one is for all affiliates and the other is not; both are given the same way here, but keep them apart)
        if abs((datetime.date.fromisoformat(s2["sd"]) - datetime.date.fromisoformat(splits[0]["sd"])).days) >= 2 and s2["p"] != splits[0]["p"]:
            splits.append(s2)
            splits.sort(key=lambda x: (x["p"], x["sd"]))
            if splits[0]["sd"] > splits[1]["sd"]:
                splits = splits[:1]
    per_af = rng.random() < 0.5
    afs = sorted({ref.af_norm(r.get("af")) for r in rows if r["sec"] == sec} | ({"default"} if sec in h.get("init", {}) else set()))
    spell = {}
    for r in rows:
        if r["sec"] == sec:
            spell.setdefault(ref.af_norm(r.get("af")), r.get("af") or "Default")
    spell.setdefault("default", "Default")

    def srows(sp):
        if per_af:
            order = list(afs)
            rng.shuffle(order)
            return [mkrow(sec, sp["sd"], "Split", spell[a], split=sp["name"]) for a in order]
        return [mkrow(sec, sp["sd"], "Split", "", split=sp["name"])]
    out = []
    k = Fraction(1)
    for i, r in enumerate(rows):
        for sp in splits:
            if sp["p"] == i:
                out.extend(srows(sp))
                k *= sp["f"]
        out.append(restate(r, k) if (k != 1 and r["sec"] == sec) else dict(r))
    for sp in splits:
        if sp["p"] >= len(rows):
            out.extend(srows(sp))
    first = splits[0]
    return {"rows": out, "init": h.get("init", {}), "features": []}, {"sec": sec, "p": first["p"], "f": first["f"], "sd": first["sd"], "per_af": per_af,
                                                                      "name": "+".join(sp["name"] for sp in splits), "base_sorted": rows,
                                                                      "splits": [[sp["sd"], str(sp["f"])] for sp in splits]}


def c15_compare(ra, rb, info):
    """ra: base run; rb: run with the inserted split."""
    if ra.get("ok") != rb.get("ok"):
        return {"what": "acceptance differs", "ok": [ra.get("ok"), rb.get("ok")], "err": [ra.get("err"), rb.get("err")]}
    if not ra.get("ok"):
        return None
    sec = info["sec"]
    splits = [(sd_, Fraction(f_)) for sd_, f_ in info.get("splits") or [[info["sd"], str(info["f"])]]]
    sds = [sd_ for sd_, _ in splits]
    for s2 in ra["tables"]:
        if s2 != sec:
            d = first_diff(table_sig(ra["tables"][s2]), table_sig(rb["tables"][s2]))
            if d:
                return {"what": "another security changed", "sec": s2, "diff": d}
    ta, tb = ra["tables"][sec], rb["tables"][sec]
    col = {h: i for i, h in enumerate(ta["header"])}
    rows_b = [r for r in tb["rows"] if not (r[col["TX"]] == "Split" and r[col["Settl. Date"]] in sds)]
    n_split = len(tb["rows"]) - len(rows_b)
    if bool(ta["errors"]) != bool(tb["errors"]):
        return {"what": "acceptance of the security differs", "errors": [ta["errors"], tb["errors"]]}
    if len(rows_b) != len(ta["rows"]):
        return {"what": "row count differs", "rows": [len(ta["rows"]), len(rows_b)]}
    seen_split = False
    bi = 0
    after = False
    # walk tb in order to know which rows come after the split
    flags = []
    seen = set()
    kk = Fraction(1)
    for r in tb["rows"]:
        if r[col["TX"]] == "Split" and r[col["Settl. Date"]] in sds:
            j_ = sds.index(r[col["Settl. Date"]])
            if j_ not in seen:          # one split may show as one row per affiliate
                seen.add(j_)
                kk *= splits[j_][1]
            continue
        flags.append(kk)
    eps = ref.EPS
    for i, (x, y) in enumerate(zip(ta["rows"], rows_b)):
        g1, s1 = ref.parse_gain_cell(x[col["Cap. Gain"]])
        g2, s2 = ref.parse_gain_cell(y[col["Cap. Gain"]])
        if not ref.close(g1, g2):
            return {"what": "capital gain changed", "row": i, "base": str(g1), "split": str(g2)}
        a1 = s1["amount"] if s1 else None
        a2 = s2["amount"] if s2 else None
        if not ref.close(a1, a2):
            return {"what": "superficial-loss amount changed", "row": i, "base": str(a1), "split": str(a2)}
        for cname in ("New ACB", "ACB +/-"):
            v1, v2 = ref.money(x[col[cname]]), ref.money(y[col[cname]])
            if not ref.close(v1, v2):
                return {"what": "total cost base changed", "col": cname, "row": i, "base": str(v1), "split": str(v2)}
        o1, al1, _ = ref.parse_balance_cell(x[col["Share Balance"]])
        o2, al2, _ = ref.parse_balance_cell(y[col["Share Balance"]])
        k = flags[i]
        if o1 is not None and o2 is not None and not ref.close(o1 * k, o2):
            return {"what": "share balance does not scale by the ratio", "row": i, "base": str(o1), "split": str(o2), "scale": str(k)}
        p1, p2 = ref.money(x[col["New ACB/Share"]]), ref.money(y[col["New ACB/Share"]])
        if p1 is not None and p2 is not None and not ref.close(p1 / k, p2, eps * max(1, p1)):
            return {"what": "per-share cost does not scale by the ratio", "row": i, "base": str(p1), "split": str(p2)}
    return None


def c15_nontrivial(h, info):
    """inserted split inside the +-30 day window of a loss sale (approximated from prices is not
    possible here, so: of any sale), or an affiliate of the security holds nothing at the split."""
    sec = info["sec"]
    near = any(r["sec"] == sec and r["action"] == "Sell" and abs((datetime.date.fromisoformat(r["sd"]) - datetime.date.fromisoformat(sd_)).days) <= 30
               for r in h["rows"] for sd_, _ in info["splits"])
    held = {}
    for r in info["base_sorted"][:info["p"]]:
        if r["sec"] != sec:
            continue
        a = ref.af_norm(r.get("af"))
        if r["action"] == "Buy":
            held[a] = held.get(a, Fraction(0)) + Fraction(r["shares"])
        elif r["action"] == "Sell":
            held[a] = held.get(a, Fraction(0)) - Fraction(r["shares"])
    afs = {ref.af_norm(r.get("af")) for r in h["rows"] if r["sec"] == sec}
    empty = any(held.get(a, 0) == 0 for a in afs)
    return near or empty


def c15_worker(shard):
    cases = []
    meta = []
    for cid, name, h, K in shard:
        cases.append(history_to_case(cid + "#base", h))
        vs = []
        for k in range(K):
            rng = common.rng_for(cid, "split", k)
            h2, info = c15_variant(rng, h)
            cases.append(history_to_case("%s#S%d" % (cid, k), h2))
            vs.append((k, h2, info))
        meta.append((cid, name, h, vs))
    res = common.run_harness("app", cases, tag="c15", nproc=1)
    out = []
    for cid, name, h, vs in meta:
        rb = res.get(cid + "#base", {})
        j = {"cid": cid, "name": name, "unjudged": False, "findings": [], "pairs": 0, "nontrivial": 0, "in_window": 0}
        if "panic" in rb or "crash" in rb or "hang" in rb:
            j["unjudged"] = True
            out.append(j)
            continue
        for k, h2, info in vs:
            r2 = res.get("%s#S%d" % (cid, k), {})
            if "panic" in r2 or "crash" in r2 or "hang" in r2:
                continue
            j["pairs"] += 1
            try:
                d = c15_compare(rb, r2, info)
            except ValueError as e:
                d = {"what": "unparsable cell", "err": str(e)}
            if c15_nontrivial(h, info):
                j["nontrivial"] += 1
            if d is not None:
                j["findings"].append({"what": d["what"], "diff": d, "variant": h2,
                                      "info": {"sec": info["sec"], "sd": info["sd"], "ratio": info["name"], "per_af": info["per_af"], "p": info["p"], "f": str(info["f"]),
                                               "splits": info["splits"]}})
                j["history"] = h
                break
        if not j["findings"] and len(out) < 1 and vs:
            j["sample"] = {"base": gen.rows_to_csv(h["rows"], gen.used_cols(h["rows"]))[:500],
                           "with_split": gen.rows_to_csv(vs[0][1]["rows"], gen.used_cols(vs[0][1]["rows"]))[:700]}
        out.append(j)
    return out


def run_c15(tier):
    seed = common.seed()
    common.build()
    V = Verdict("C15", tier)
    V.rule = ("split-free base histories x K variants with one inserted a-for-b split (ratios with only 2 and 5 as prime factors so that the restatement "
              "is exact: 2,4,5,10,1/2,1/4,1/5,1/10,5/2,2/5; forward, reverse and decimal forms) at a random position (on an event's day, between two events, "
              "after the last), given once for all affiliates or once per affiliate; later quantities x ratio, per-share amounts / ratio; non-trivial = the "
              "split falls within 30 days of a sale of that security, or an affiliate of the security holds nothing at the split")
    n = {"quick": 600, "thorough": 15000}[tier]
    K = {"quick": 5, "thorough": 12}[tier]
    pop = []
    for i in range(n):
        rng = common.rng_for(seed, "C15", i)
        hh = gen.HistoryGen(rng, c15_profile(rng)).gen()
        if not hh["rows"]:
            continue
        pop.append((common.case_id(seed, "C15", i), "base #%d" % i, hh, K))
    nsh = common.NPROC * 4
    shards = [s for s in (pop[i::nsh] for i in range(nsh)) if s]
    with multiprocessing.Pool(common.NPROC) as pool:
        parts = pool.map(c15_worker, shards)
    for part in parts:
        for j in part:
            V.count()
            if j["unjudged"]:
                V.unjudged += 1
                continue
            V.bump("pairs_compared", j["pairs"])
            V.bump("nontrivial_pairs", j["nontrivial"])
            if j["nontrivial"]:
                V.nontriv(j["cid"])
            if "sample" in j:
                V.sample(j["sample"], cap=2)
            for f in j["findings"][:1]:
                V.violation("%s %s [%s]" % (json.dumps(f["diff"])[:300], json.dumps(f["info"]), j["name"]),
                            {"kind": "split_variant", "prop": "C15", "history": j["history"], "variant": f["variant"], "info": f["info"]},
                            {"what": f["what"]})
    return V.finish(floor_eval=100, floor_nontrivial=10, floors={"pairs_compared": 1000})


def replay_c15(rec):
    c = rec["case"]
    common.build()
    res = common.run_harness("app", [history_to_case("a", c["history"]), history_to_case("b", c["variant"])], tag="c15r", nproc=1)
    info = dict(c["info"])
    info["f"] = Fraction(info["f"])
    d = c15_compare(res["a"], res["b"], info)
    if d:
        print("replay finding:", json.dumps(d)[:800])
        print("VIOLATION property=C15 replay=%s" % sys.argv[2])
        return 1
    print("replay: no finding reproduced")
    return 0


# ---------------------------------------------------------------------------------------
# C16: -b SYM:n:c equals an opening purchase by the default affiliate

MALFORMED = ["FOO", "FOO:1", "FOO:1:2:3", ":1:2", " :1:2", "FOO:x:1", "FOO:1:y", "FOO:-1:5", "FOO:1:-5", "FOO::", "FOO:1e3:5",
             "FOO:1:", "FOO: :1", "::", "", "FOO:1:2:", "A:B:C:1:2"]


def c16_profile(rng):
    return gen.Knobs(affiliates=rng.choice(ALL_AFS), n_secs=(1, 3), n_rows=(3, 30), opening=0.0,
                     offsets=[0, 0, 1, 2, 5, 10, 14, 20, 29, 30, 31, 45, 90], p_loss_bias=0.7,
                     p_invalid=rng.choice([0, 0, 0.03]),
                     weights={"Buy": 5, "Sell": 5, "RoC": 1, "SfLA": 0.2, "Split": 1.2})


def c16_build(rng, h):
    secs = sorted({r["sec"] for r in h["rows"]})
    sym = rng.choice(secs)
    n = rng.choice(["10", "100", "3", "7.5", "0.001", "33.3333", gen.rand_dec(rng, 1, 500, rng.choice([0, 2, 4])), "0"])
    c = rng.choice(["0", "100", "1234.56", gen.rand_dec(rng, 0, 50000, 2), "0.01", "100.123456", gen.rand_dec(rng, 0, 50000, rng.choice([3, 4, 6, 8]))])
    if Fraction(n) == 0:
        c = "0"
    first = min(datetime.date.fromisoformat(r["td"]) for r in h["rows"])
    first = min(first, min(datetime.date.fromisoformat(r["sd"]) for r in h["rows"]))
    d0 = (first - datetime.timedelta(days=rng.choice([31, 32, 400, 1000]))).isoformat()
    other_init = {}
    if rng.random() < 0.4:
        other_init["NOTHERE"] = (rng.choice(["5", "0", "12.5"]), rng.choice(["50", "0"]))
    a = {"rows": h["rows"], "init": dict([(sym, (n, c))] + list(other_init.items())), "features": []}
    pre = []
    if Fraction(n) > 0:
        pre = [mkrow(sym, d0, "Buy", rng.choice(["", "Default"]), shares=n, aps="0", comm=c if Fraction(c) > 0 else "", cur="CAD")]
    b = {"rows": pre + list(h["rows"]), "init": {}, "features": []}
    return a, b, {"sym": sym, "n": n, "c": c, "prepended": len(pre)}


def c16_compare(ra, rb, info):
    if ra.get("ok") != rb.get("ok"):
        return {"what": "one form is accepted and the other is not", "ok": [ra.get("ok"), rb.get("ok")], "err": [ra.get("err"), rb.get("err")]}
    if not ra.get("ok"):
        return None
    if "NOTHERE" in ra["tables"]:
        return {"what": "an opening position created a table for a security without rows"}
    if set(ra["tables"]) != set(rb["tables"]):
        return {"what": "securities differ", "secs": [sorted(ra["tables"]), sorted(rb["tables"])]}
    for sec in ra["tables"]:
        sa = table_sig(ra["tables"][sec])
        sb = table_sig(rb["tables"][sec])
        if sec == info["sym"] and info["prepended"]:
            sb["rows"] = sb["rows"][1:]
        if sec == info["sym"] and not info["prepended"]:
            # SYM:0:0 is compared with no purchase at all. The default affiliate then may or may
            # not be listed in the per-affiliate rows of a split for all affiliates; such a row
            # (zero shares, zero change) corresponds to no input row and carries no figure.
            hdr = ra["tables"][sec]["header"]
            ci = {h_: i for i, h_ in enumerate(hdr)}

            def zero_split(r):
                return (r[ci["TX"]] == "Split" and r[ci["Shares"]] == "0"
                        and ref.af_norm(r[ci["Affiliate"]]) == "default")
            sa["rows"] = [r for r in sa["rows"] if not zero_split(r)]
            sb["rows"] = [r for r in sb["rows"] if not zero_split(r)]
        d = first_diff(sa, sb)
        if d:
            return {"what": "figures differ between --symbol-base and an opening purchase", "sec": sec, "diff": d}
    d = first_diff(table_sig(ra["agg"]), table_sig(rb["agg"]))
    if d:
        return {"what": "aggregate differs", "diff": d}
    return None


def c16_nontrivial(h, info):
    rows = [r for r in h["rows"] if r["sec"] == info["sym"]]
    afs = {ref.af_norm(r.get("af")) for r in rows if not (r["action"] == "Split" and not (r.get("af") or "").strip())}
    has_other = len(afs - {"default"}) > 0
    has_split = any(r["action"] == "Split" for r in rows)
    first = min(datetime.date.fromisoformat(r["sd"]) for r in rows)
    early_sale = any(r["action"] == "Sell" and (datetime.date.fromisoformat(r["sd"]) - first).days <= 30 for r in rows)
    return has_other or has_split or early_sale


def c16_worker(shard):
    cases = []
    meta = []
    for cid, name, h in shard:
        rng = common.rng_for(cid, "open")
        a, b, info = c16_build(rng, h)
        cases.append(history_to_case(cid + "#A", a))
        cases.append(history_to_case(cid + "#B", b))
        meta.append((cid, name, h, a, b, info))
    res = common.run_harness("app", cases, tag="c16", nproc=1)
    out = []
    for cid, name, h, a, b, info in meta:
        ra, rb = res.get(cid + "#A", {}), res.get(cid + "#B", {})
        j = {"cid": cid, "name": name, "unjudged": False, "findings": [], "nontrivial": c16_nontrivial(h, info)}
        if any(k in r for r in (ra, rb) for k in ("panic", "crash", "hang")):
            j["unjudged"] = True
            out.append(j)
            continue
        try:
            d = c16_compare(ra, rb, info)
        except ValueError as e:
            d = {"what": "unparsable cell", "err": str(e)}
        if d:
            j["findings"].append({"what": d["what"], "diff": d, "a": a, "b": b, "info": info})
        elif len(out) < 1:
            j["sample"] = {"symbol_base": gen.init_args(a["init"]), "csv": gen.rows_to_csv(h["rows"], gen.used_cols(h["rows"]))[:500],
                           "opening_purchase_row": b["rows"][0] if info["prepended"] else None}
        out.append(j)
    return out


def c16_cli(V, pop, tier):
    """Malformed specifications are rejected before any processing; a sample of valid ones agrees
    with the library path, through the real binary."""
    wd = common.workdir("c16cli")
    try:
        cid, name, h = pop[0]
        inp = os.path.join(wd, "in.csv")
        with open(inp, "w") as f:
            f.write(gen.rows_to_csv(h["rows"], gen.used_cols(h["rows"])))
        for spec in MALFORMED:
            for extra in ([], ["-b", "OK:1:1"], ["--total-costs"], ["--summarize-before", "2030-01-01"]):
                r = common.run_cli("acb", [inp, "-b", spec] + extra, home=wd)
                V.bump("malformed_specs_tried")
                out = r["out"].decode("utf-8", "replace")
                err = r["err"].decode("utf-8", "replace")
                if r["rc"] == 0 or "Transactions for" in out or "Aggregate Gains" in out or not err.strip():
                    V.violation("malformed --symbol-base %r not rejected before processing (rc=%s, stdout %d bytes, stderr %r)"
                                % (spec, r["rc"], len(out), err[:200]),
                                {"kind": "malformed_spec", "prop": "C16", "spec": spec, "extra": extra, "history": h},
                                {"what": "malformed spec accepted", "spec": spec})
                # the library entry point agrees
            lr = common.run_harness("app", [{"id": "m", "files": [["in.csv", gen.rows_to_csv(h["rows"], gen.used_cols(h["rows"]))]],
                                              "init": [spec], "full": True}], tag="c16m", nproc=1)["m"]
            if lr.get("ok") or lr.get("stage") != "init":
                V.violation("malformed --symbol-base %r not rejected by the library entry point: %s" % (spec, json.dumps(lr)[:200]),
                            {"kind": "malformed_spec_lib", "prop": "C16", "spec": spec, "history": h}, {"what": "malformed spec accepted", "spec": spec})
        # valid specs through the binary: CSV dir output equals the opening-purchase form
        k = 12 if tier == "quick" else 120
        for cid, name, h in pop[:k]:
            rng = common.rng_for(cid, "open")
            a, b, info = c16_build(rng, h)
            outs = []
            for tag, hh in (("a", a), ("b", b)):
                p = os.path.join(wd, "%s-%s.csv" % (cid, tag))
                with open(p, "w") as f:
                    f.write(gen.rows_to_csv(hh["rows"], gen.used_cols(hh["rows"])))
                od = os.path.join(wd, "%s-%s-out" % (cid, tag))
                args = [p, "-d", od, "--print-full-values"]
                for s in gen.init_args(hh["init"]):
                    args += ["-b", s]
                r = common.run_cli("acb", args, home=wd)
                outs.append((r, od))
            (r1, d1), (r2, d2) = outs
            V.bump("binary_pairs")
            if (r1["rc"] == 0) != (r2["rc"] == 0):
                V.violation("binary: one form exits 0 and the other does not [%s]" % name,
                            {"kind": "pair", "prop": "C16", "a": a, "b": b, "info": info}, {"what": "exit status differs"})
                continue
            if r1["rc"] != 0:
                continue
            import csv as _csv
            for sec in sorted({r["sec"] for r in h["rows"]}):
                t1 = list(_csv.reader(open(os.path.join(d1, sec + ".csv"), newline="")))
                t2 = list(_csv.reader(open(os.path.join(d2, sec + ".csv"), newline="")))
                if sec == info["sym"] and info["prepended"]:
                    t2 = t2[:1] + t2[2:]
                if sec == info["sym"] and not info["prepended"]:
                    zs = lambda r: len(r) > 14 and r[3] == "Split" and r[5] == "0" and ref.af_norm(r[14]) == "default"
                    t1 = [r for r in t1 if not zs(r)]
                    t2 = [r for r in t2 if not zs(r)]
                if t1 != t2:
                    V.violation("binary: %s.csv differs between -b and an opening purchase [%s]" % (sec, name),
                                {"kind": "pair", "prop": "C16", "a": a, "b": b, "info": info}, {"what": "figures differ (binary)"})
                    break
    finally:
        common.cleanup(wd)


def run_c16(tier):
    seed = common.seed()
    common.build(bins=True)
    V = Verdict("C16", tier)
    V.rule = ("generated inputs x an opening position SYM:n:c (n zero, fractional or large; c zero or not; sometimes a second opening position for a security "
              "that does not occur) compared with the same input preceded by 'Buy n @ 0, commission c' by the default affiliate 31-1000 days before the "
              "first row; plus every malformed specification through the binary and the library; non-trivial = SYM has another affiliate, a split, or a "
              "sale within 30 days of its first row")
    n = {"quick": 1500, "thorough": 50000}[tier]
    pop = []
    for i in range(n):
        rng = common.rng_for(seed, "C16", i)
        hh = gen.HistoryGen(rng, c16_profile(rng)).gen()
        if hh["rows"] and rng.random() < 0.25:
            # security names are matched as written: lower- and mixed-case names are names like any other
            hh = rename_secs(hh, rng.choice([["brk.b", "vfv.to", "xeqt"], ["Foo", "bAR", "Qqq.To"], ["abc", "ABC2", "Abc3"]]))
        if hh["rows"]:
            pop.append((common.case_id(seed, "C16", i), "input #%d" % i, hh))
    nsh = common.NPROC * 4
    shards = [s for s in (pop[i::nsh] for i in range(nsh)) if s]
    with multiprocessing.Pool(common.NPROC) as pool:
        parts = pool.map(c16_worker, shards)
    for part in parts:
        for j in part:
            V.count()
            if j["unjudged"]:
                V.unjudged += 1
                continue
            V.bump("pairs_compared")
            if j["nontrivial"]:
                V.nontriv(j["cid"])
            if "sample" in j:
                V.sample(j["sample"], cap=2)
            for f in j["findings"][:1]:
                V.violation("%s %s [%s]" % (json.dumps(f["diff"])[:400], json.dumps(f["info"]), j["name"]),
                            {"kind": "pair", "prop": "C16", "a": f["a"], "b": f["b"], "info": f["info"]}, {"what": f["what"]})
    c16_cli(V, pop, tier)
    return V.finish(floor_eval=100, floor_nontrivial=10, floors={"pairs_compared": 500, "malformed_specs_tried": 20, "binary_pairs": 5})


def replay_c16(rec):
    c = rec["case"]
    common.build(bins=True)
    if c["kind"].startswith("malformed"):
        wd = common.workdir("c16r")
        inp = os.path.join(wd, "in.csv")
        h = c["history"]
        open(inp, "w").write(gen.rows_to_csv(h["rows"], gen.used_cols(h["rows"])))
        r = common.run_cli("acb", [inp, "-b", c["spec"]] + c.get("extra", []), home=wd)
        common.cleanup(wd)
        print("rc=%s stderr=%r" % (r["rc"], r["err"][:300]))
        if r["rc"] == 0:
            print("VIOLATION property=C16 replay=%s" % sys.argv[2])
            return 1
        return 0
    res = common.run_harness("app", [history_to_case("a", c["a"]), history_to_case("b", c["b"])], tag="c16r", nproc=1)
    d = c16_compare(res["a"], res["b"], c["info"])
    if d:
        print("replay finding:", json.dumps(d)[:800])
        print("VIOLATION property=C16 replay=%s" % sys.argv[2])
        return 1
    print("replay: no finding reproduced")
    return 0


RUN = {"C07": (run_c07, replay_c07), "C08": (run_c08, replay_c08), "C15": (run_c15, replay_c15), "C16": (run_c16, replay_c16)}

if __name__ == "__main__":
    import multiprocessing.pool
    prop = sys.argv[1]
    sys.argv = [sys.argv[0]] + sys.argv[2:]
    sys.exit(common.main_dispatch(prop, RUN[prop][0], RUN[prop][1]))
