"""Metamorphic monitors: C07 (re-layout), C08 (independent securities), C15 (split neutrality),
C16 (--symbol-base equals an opening purchase). Two or more real executions whose observable
results must agree."""
import datetime
import json
import multiprocessing
import os
import sys
from fractions import Fraction

sys.path.insert(0, os.path.dirname(os.path.abspath(__file__)))
import common
import gen
import ref
from common import Verdict
from ledger import history_to_case, mkrow, ALL_AFS

SUM_TOL = Fraction(1, 10 ** 18)


def table_sig(t, drop_cols=()):
    rows = [[c for i, c in enumerate(r) if i not in drop_cols] for r in t["rows"]]
    return {"rows": rows, "footer": t["footer"], "notes": t["notes"], "errors": t["errors"]}


def first_diff(a, b):
    if a["errors"] != b["errors"]:
        return {"errors": [a["errors"], b["errors"]]}
    if len(a["rows"]) != len(b["rows"]):
        return {"row_count": [len(a["rows"]), len(b["rows"])]}
    for i, (x, y) in enumerate(zip(a["rows"], b["rows"])):
        if x != y:
            for ci, (p, q) in enumerate(zip(x, y)):
                if p != q:
                    return {"row": i, "col": ci, "a": p, "b": q}
    if a["footer"] != b["footer"]:
        return {"footer": [a["footer"], b["footer"]]}
    if a["notes"] != b["notes"]:
        return {"notes": [a["notes"], b["notes"]]}
    return None


# ---------------------------------------------------------------------------------------
# C07

def c07_profile(rng):
    return gen.Knobs(affiliates=rng.choice(ALL_AFS), n_secs=(2, 4), n_rows=(8, 50), opening=0.15,
                     offsets=[0, 0, 0, 0, 1, 1, 2, 5, 10, 29, 30, 31, 60], p_invalid=rng.choice([0, 0, 0.02]),
                     td_lag=[0, 0, 1, 2, 2, 3], shuffle_file_order=0.0, p_comm=0.7, p_comm_cur=0.2,
                     weights={"Buy": 5, "Sell": 5, "RoC": 1, "SfLA": 0.3, "Split": 0.8})


def header_style(rng):
    k = rng.choice(["same", "upper", "title", "pad", "mixed"])

    def f(c):
        if k == "upper":
            c = c.upper()
        elif k == "title":
            c = c.title()
        elif k == "mixed":
            c = "".join(ch.upper() if rng.random() < 0.5 else ch for ch in c)
        elif k == "pad":
            c = " " * rng.randint(0, 3) + c + " " * rng.randint(0, 3)
        return c
    return f


JUNK = ["", "x", "12.5", "n/a", "hello, world", 'say "hi"', "2020-01-01", "-1", "Buy", "ünï"]


def relayout_files(rng, rows):
    """One admissible re-layout: returns list of [name, csv_text]."""
    rows = gen.admissible_shuffle(rng, [dict(r) for r in rows]) if rng.random() < 0.7 else [dict(r) for r in rows]
    # partition into 1-5 files in order (a piece may be empty)
    nfiles = rng.randint(1, 5)
    cuts = sorted(rng.randint(0, len(rows)) for _ in range(nfiles - 1))
    pieces = []
    prev = 0
    for c in cuts + [len(rows)]:
        pieces.append(rows[prev:c])
        prev = c
    files = []
    for fi, piece in enumerate(pieces):
        base_cols = gen.used_cols(rows) if rng.random() < 0.5 else list(gen.COLS)
        # every column that any row of this piece uses must be present
        need = gen.used_cols(piece) if piece else ["security", "trade date", "settlement date", "action"]
        cols = [c for c in gen.COLS if c in set(base_cols) | set(need)]
        rng.shuffle(cols)
        n_extra = rng.choice([0, 0, 1, 2, 3, 6, 10])
        extras = ["x-col-%d" % i for i in range(n_extra)]
        layout = cols + extras
        rng.shuffle(layout)
        hs = header_style(rng)
        key_for = dict(zip(gen.COLS, gen.KEYS))
        lines = [",".join(gen.csv_escape(hs(c)) for c in layout)]
        for r in piece:
            vals = []
            for c in layout:
                if c in key_for:
                    v = str(r.get(key_for[c], "") or "")
                    if v and rng.random() < 0.15:
                        v = " " * rng.randint(1, 2) + v + " " * rng.randint(0, 2)
                else:
                    v = rng.choice(JUNK)
                vals.append(gen.csv_escape(v))
            lines.append(",".join(vals))
        files.append(["part%d.csv" % fi, "\n".join(lines) + "\n"])
    return files


def order_matters(rows):
    seen = {}
    for r in rows:
        k = (r["sec"], r["sd"])
        seen.setdefault(k, set()).add(r["action"])
    return any(len(v) >= 2 for v in seen.values())


def c07_worker(shard):
    K = shard["K"]
    cases = []
    meta = []
    for cid, name, h in shard["pop"]:
        base = history_to_case(cid + "#base", h)
        cases.append(base)
        lay = []
        for k in range(K):
            rng = common.rng_for(cid, "layout", k)
            files = relayout_files(rng, h["rows"])
            c = {"id": "%s#L%d" % (cid, k), "files": files, "init": gen.init_args(h.get("init", {})),
                 "full": True, "want": ["model"]}
            cases.append(c)
            lay.append(c)
        meta.append((cid, name, h, lay))
    res = common.run_harness("app", cases, tag="c07", nproc=1)
    out = []
    for cid, name, h, lay in meta:
        rb = res.get(cid + "#base", {})
        j = {"cid": cid, "name": name, "unjudged": False, "findings": [], "n_layouts": 0,
             "nontrivial": order_matters(h["rows"]) and len({r["sec"] for r in h["rows"]}) >= 2}
        if "panic" in rb or "crash" in rb or "hang" in rb:
            j["unjudged"] = True
            out.append(j)
            continue
        for c in lay:
            rl = res.get(c["id"], {})
            j["n_layouts"] += 1
            d = compare_runs(rb, rl)
            if d is not None:
                j["findings"].append({"what": "re-layout changed the result", "diff": d, "layout_files": c["files"]})
                j["history"] = h
                break
        if not j["findings"] and len(out) < 1:
            j["sample"] = {"base_csv": gen.rows_to_csv(h["rows"], gen.used_cols(h["rows"]))[:600],
                           "relayout_example": [f[1][:400] for f in lay[0]["files"]] if lay else []}
        out.append(j)
    return out


def compare_runs(ra, rb):
    """Both app results; returns a description of the first difference or None."""
    if ra.get("ok") != rb.get("ok"):
        return {"ok": [ra.get("ok"), rb.get("ok")], "err": [ra.get("err"), rb.get("err")],
                "panic": [ra.get("panic"), rb.get("panic")]}
    if not ra.get("ok"):
        return None   # both stopped at load stage (message may name a different file/row)
    ta, tb = ra["tables"], rb["tables"]
    if set(ta) != set(tb):
        return {"securities": [sorted(ta), sorted(tb)]}
    for sec in sorted(ta):
        d = first_diff(table_sig(ta[sec]), table_sig(tb[sec]))
        if d:
            d["sec"] = sec
            return d
    d = first_diff(table_sig(ra["agg"]), table_sig(rb["agg"]))
    if d:
        d["sec"] = "aggregate"
        return d
    return None


def run_c07(tier):
    seed = common.seed()
    common.build()
    V = Verdict("C07", tier)
    V.rule = ("base histories (2-4 securities, same-day clusters) x K admissible re-layouts each: partition into 1-5 files in order (pieces may be "
              "empty), per-file column permutation, header case/padding, 0-10 unrecognised columns with junk, padded values, row permutation keeping "
              "the order of rows with the same security and settlement date; non-trivial = base has a same-day same-security cluster of different "
              "actions and >=2 securities; K=6 quick, 30 thorough")
    n = {"quick": 500, "thorough": 8000}[tier]
    K = {"quick": 6, "thorough": 30}[tier]
    pop = []
    for i in range(n):
        rng = common.rng_for(seed, "C07", i)
        hh = gen.HistoryGen(rng, c07_profile(rng)).gen()
        pop.append((common.case_id(seed, "C07", i), "base #%d" % i, hh))
    nsh = common.NPROC * 4
    shards = [{"K": K, "pop": s} for s in (pop[i::nsh] for i in range(nsh)) if s]
    with multiprocessing.Pool(common.NPROC) as pool:
        parts = pool.map(c07_worker, shards)
    nl = 0
    for part in parts:
        for j in part:
            V.count()
            if j["unjudged"]:
                V.unjudged += 1
                continue
            nl += j["n_layouts"]
            if j["nontrivial"]:
                V.nontriv(j["cid"])
            if "sample" in j:
                V.sample(j["sample"], cap=2)
            for f in j["findings"][:1]:
                V.violation("%s [%s]" % (json.dumps(f["diff"])[:400], j["name"]),
                            {"kind": "relayout", "prop": "C07", "history": j["history"], "layout_files": f["layout_files"]},
                            {"what": f["what"]})
    V.extra["layout_pairs_compared"] = nl
    return V.finish(floor_eval=100, floor_nontrivial=10, floors={"layout_pairs_compared": 1000})


def replay_c07(rec):
    c = rec["case"]
    h = c["history"]
    common.build()
    cases = [history_to_case("base", h),
             {"id": "lay", "files": c["layout_files"], "init": gen.init_args(h.get("init", {})), "full": True, "want": ["model"]}]
    res = common.run_harness("app", cases, tag="c07r", nproc=1)
    d = compare_runs(res["base"], res["lay"])
    if d:
        print("replay finding:", json.dumps(d)[:1000])
        print("VIOLATION property=C07 replay=%s" % sys.argv[2])
        return 1
    print("replay: no finding reproduced")
    return 0


# ---------------------------------------------------------------------------------------
# C08

SECS_A = ["AAA", "ABX", "ACME"]
SECS_B = ["BBB", "BZZ", "BOOM"]


def rename_secs(h, names):
    secs = sorted({r["sec"] for r in h["rows"]} | set(h.get("init", {})))
    m = {s: names[i % len(names)] + ("" if i < len(names) else str(i)) for i, s in enumerate(secs)}
    rows = []
    for r in h["rows"]:
        r2 = dict(r)
        r2["sec"] = m[r["sec"]]
        rows.append(r2)
    init = {m[s]: v for s, v in h.get("init", {}).items()}
    return {"rows": rows, "init": init, "features": h.get("features", [])}


def c08_population(seed, n):
    pop = []
    for i in range(n):
        rng = common.rng_for(seed, "C08", i)
        afs = rng.choice(ALL_AFS)
        ka = gen.Knobs(affiliates=afs, n_secs=(1, 2), n_rows=(4, 30), opening=0.2,
                       offsets=[0, 0, 1, 2, 5, 10, 29, 30, 31, 60, 200])
        kb = gen.Knobs(affiliates=afs, n_secs=(1, 2), n_rows=(3, 25), opening=0.2,
                       p_invalid=rng.choice([0.0, 0.05, 0.15, 0.3]),
                       offsets=[0, 0, 1, 2, 5, 10, 29, 30, 31, 60, 200],
                       start_year=ka.start_year)
        a = rename_secs(gen.HistoryGen(rng, ka).gen(), SECS_A)
        b = rename_secs(gen.HistoryGen(rng, kb).gen(), SECS_B)
        # random interleaving preserving each side's own order
        ra, rb = list(a["rows"]), list(b["rows"])
        u = []
        while ra or rb:
            if ra and (not rb or rng.random() < len(ra) / (len(ra) + len(rb))):
                u.append(ra.pop(0))
            else:
                u.append(rb.pop(0))
        ab = {"rows": u, "init": dict(list(a["init"].items()) + list(b["init"].items())), "features": []}
        pop.append((common.case_id(seed, "C08", i), "pair #%d" % i, a, b, ab))
    return pop


def agg_map(res):
    out = {}
    for r in res["agg"]["rows"]:
        out[r[0]] = ref.money(r[1])
    return out


def c08_judge(a, b, ab, ra, rb, rab):
    f = []
    info = {"b_fails": False, "shared": False}
    for r in (ra, rb, rab):
        if "panic" in r or "crash" in r or "hang" in r:
            return None, info
    if not (ra.get("ok") and rb.get("ok") and rab.get("ok")):
        # a load-stage error in B legitimately stops the combined run ("rows do not parse")
        if ra.get("ok") and rb.get("ok") and not rab.get("ok"):
            f.append({"what": "combined run fails although each part runs", "err": rab.get("err")})
            return f, info
        return None, info
    for part, rp in ((a, ra), (b, rb)):
        for sec, t in rp["tables"].items():
            t2 = rab["tables"].get(sec)
            if t2 is None:
                f.append({"what": "security missing from the combined run", "sec": sec})
                return f, info
            d = first_diff(table_sig(t), table_sig(t2))
            if d:
                d["sec"] = sec
                f.append({"what": "a security's table changed when other securities were added", "diff": d})
                return f, info
            if t["errors"]:
                info["b_fails"] = True
            for e in t2["errors"]:
                others = [s for s in rab["tables"] if s != sec]
                if any((" " + o + " ") in (" " + e.replace(",", " ").replace(":", " ") + " ") for o in others):
                    f.append({"what": "an error message names another security", "sec": sec, "msg": e})
                    return f, info
    extra = set(rab["tables"]) - set(ra["tables"]) - set(rb["tables"])
    if extra:
        f.append({"what": "combined run reports securities that neither part has", "secs": sorted(extra)})
        return f, info
    # the aggregate changes by exactly the other securities' own totals: in every run it is
    # the sum of the totals shown under the securities' tables
    for rp, nm in ((ra, "A"), (rb, "B"), (rab, "A+B")):
        own = {}
        for sec, t in rp["tables"].items():
            labels = t["footer"][8].split("\n")
            vals = t["footer"][9].split("\n")
            for k, v in zip(labels, vals):
                k = "Since inception" if k == "Total" else k
                own[k] = own.get(k, Fraction(0)) + ref.money(v)
        g = agg_map(rp)
        for k in set(own) | set(g):
            if abs((own.get(k) or Fraction(0)) - (g.get(k) or Fraction(0))) > SUM_TOL:
                f.append({"what": "aggregate gains are not the sum of the securities' own totals", "run": nm, "key": k,
                          "aggregate": str(g.get(k)), "own_totals": str(own.get(k))})
                return f, info
    ga, gb, gab = agg_map(ra), agg_map(rb), agg_map(rab)
    for k in set(ga) | set(gb) | set(gab):
        want = (ga.get(k) or Fraction(0)) + (gb.get(k) or Fraction(0))
        got = gab.get(k)
        if got is None or abs(got - want) > SUM_TOL:
            f.append({"what": "aggregate gains of the combined run are not the sum of the parts", "key": k,
                      "a": str(ga.get(k)), "b": str(gb.get(k)), "ab": str(got)})
            return f, info
    sda = {(r["sd"], ref.af_norm(r.get("af"))) for r in a["rows"]}
    sdb = {(r["sd"], ref.af_norm(r.get("af"))) for r in b["rows"]}
    info["shared"] = bool(sda & sdb)
    return f, info


def run_c08(tier):
    seed = common.seed()
    common.build()
    V = Verdict("C08", tier)
    V.rule = ("pairs (A, B) of generated inputs over disjoint security sets sharing affiliates and a date range, B with deliberately impossible rows at "
              "rate 0-30%, plus a random interleaving A+B; A, B and A+B are run in different harness processes; non-trivial = B contains a bookkeeping "
              "failure, or A and B share an affiliate and a settlement date")
    n = {"quick": 1500, "thorough": 60000}[tier]
    pop = c08_population(seed, n)
    ca = [history_to_case(cid + "A", a) for cid, _, a, b, ab in pop]
    cb = [history_to_case(cid + "B", b) for cid, _, a, b, ab in pop]
    cab = [history_to_case(cid + "U", ab) for cid, _, a, b, ab in pop]
    third = max(2, common.NPROC // 3)
    with multiprocessing.pool.ThreadPool(3) as tp:
        r1, r2, r3 = tp.map(lambda x: common.run_harness("app", x[0], tag=x[1], nproc=third),
                            [(ca, "c08a"), (cb, "c08b"), (cab, "c08u")])
    for cid, name, a, b, ab in pop:
        V.count()
        f, info = c08_judge(a, b, ab, r1.get(cid + "A", {}), r2.get(cid + "B", {}), r3.get(cid + "U", {}))
        if f is None:
            V.unjudged += 1
            continue
        V.bump("securities_compared", len(r1[cid + "A"]["tables"]) + len(r2[cid + "B"]["tables"]))
        if info["b_fails"]:
            V.bump("pairs_with_failing_security")
        if info["b_fails"] or info["shared"]:
            V.nontriv(cid)
        if not f:
            V.sample({"A": gen.rows_to_csv(a["rows"], gen.used_cols(a["rows"]))[:500],
                      "B": gen.rows_to_csv(b["rows"], gen.used_cols(b["rows"]))[:500]}, cap=2)
        for x in f[:1]:
            V.violation("%s [%s]" % (json.dumps(x)[:400], name),
                        {"kind": "pair", "prop": "C08", "a": a, "b": b, "ab": ab}, {"what": x["what"]})
    return V.finish(floor_eval=100, floor_nontrivial=10, floors={"pairs_with_failing_security": 50})


def replay_c08(rec):
    c = rec["case"]
    common.build()
    r1 = common.run_harness("app", [history_to_case("A", c["a"])], tag="c08ra", nproc=1)["A"]
    r2 = common.run_harness("app", [history_to_case("B", c["b"])], tag="c08rb", nproc=1)["B"]
    r3 = common.run_harness("app", [history_to_case("U", c["ab"])], tag="c08ru", nproc=1)["U"]
    f, info = c08_judge(c["a"], c["b"], c["ab"], r1, r2, r3)
    if f:
        print("replay finding:", json.dumps(f)[:1000])
        print("VIOLATION property=C08 replay=%s" % sys.argv[2])
        return 1
    print("replay: no finding reproduced" if f is not None else "replay: could not be judged")
    return 0 if f is not None else 2


RUN = {"C07": (run_c07, replay_c07), "C08": (run_c08, replay_c08)}

if __name__ == "__main__":
    import multiprocessing.pool
    prop = sys.argv[1]
    sys.argv = [sys.argv[0]] + sys.argv[2:]
    sys.exit(common.main_dispatch(prop, RUN[prop][0], RUN[prop][1]))
